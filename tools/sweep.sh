#!/bin/bash
# usage: tools/sweep.sh "<seeds>" [tier] [ids...]  -- runs checks on the unchanged tree at several VERIF_SEED values; evidence goes to a scratch dir.
SEEDS=${1:-"2 3 4"}; TIER=${2:-quick}; shift 2 2>/dev/null
IDS=${@:-C01 C02 C03 C04 C05 C06 C07 C08 C09 C10 C11 C12 C13 C14 C15 C16 C17 C18 C19 C20}
cd /verif
for s in $SEEDS; do for p in $IDS; do
  t0=$(date +%s)
  VERIF_SEED=$s LUNARMON_OUT=/tmp/sweep-out ./check $p $TIER > /tmp/sweep.$p.$s.log 2>&1; rc=$?
  echo "seed=$s $p rc=$rc $(( $(date +%s)-t0 ))s $(grep -E '^(HELD|VIOLATION|INCONCLUSIVE)' /tmp/sweep.$p.$s.log | head -1 | cut -c1-160)"
  [ $rc = 0 ] && rm -f /tmp/sweep.$p.$s.log
done; done
rm -rf /tmp/sweep-out

#!/bin/bash
# Runs each seeded change against checks in a scratch worktree (never touches /repo's working tree or /verif/evidence).
# usage: tools/matrix.sh [own|all]  -> writes /verif/seeded/matrix.tsv and fills detected_by in meta.json
MODE=${1:-own}
PAT=${2:-^C}   # optional regexp limiting the seeded changes; when given, results are appended
WT=${MATRIX_WT:-/tmp/matrix-wt}
OUT=${MATRIX_OUT:-/tmp/matrix-out}
git -C /repo worktree remove --force $WT 2>/dev/null
git -C /repo worktree add -q --detach $WT HEAD || exit 1
mkdir -p $OUT
if [ -z "$2" ]; then : > /verif/seeded/matrix.tsv; fi
for S in $(ls /verif/seeded | grep '^C' | grep -E "$PAT"); do
  P=${S%%-*}
  git -C $WT checkout -q -- . ; git -C $WT clean -fdq
  git -C $WT apply /verif/seeded/$S/patch.diff || { echo "$S patch failed"; continue; }
  CHECKS=$P
  if [ "$MODE" = all ]; then CHECKS="C01 C02 C03 C04 C05 C06 C07 C08 C09 C10 C11 C12 C13 C14 C15 C16 C17 C18 C19 C20"; fi
  if [ -f /verif/seeded/$S/extra_checks ]; then CHECKS="$CHECKS $(cat /verif/seeded/$S/extra_checks)"; fi
  for C in $CHECKS; do
    LUNARMON_FAILFAST=1 LUNARMON_REPO=$WT LUNARMON_OUT=$OUT /verif/check $C quick > $OUT/$S.$C.log 2>&1
    rc=$?
    first=$(grep -m1 "^  violation" $OUT/$S.$C.log | cut -c1-200)
    printf "%s\t%s\t%s\t%s\n" "$S" "$C" "$rc" "$first" >> /verif/seeded/matrix.tsv
    echo "$S $C rc=$rc"
  done
done
git -C /repo worktree remove --force $WT
rm -rf $OUT
python3 - <<'PY'
import json,collections,os
det=collections.defaultdict(list)
last={}
for l in open('/verif/seeded/matrix.tsv', errors='replace'):
    s,c,rc,first=l.rstrip('\n').split('\t')
    last[(s,c)]=rc          # a later run of the same pair supersedes an earlier one
for (s,c),rc in last.items():
    if rc=='1': det[s].append(c)
for s in os.listdir('/verif/seeded'):
    p='/verif/seeded/%s/meta.json'%s
    if os.path.exists(p):
        m=json.load(open(p)); m['detected_by']=sorted(set(det.get(s,[]))); json.dump(m,open(p,'w'),indent=1,ensure_ascii=False)
PY

#!/bin/bash
# Confirms every seeded change delivered under $1 (default /tmp/mut/out) in a scratch worktree of /repo HEAD:
# patch applies, builds, the unedited suite passes with it, the demo fails with it and passes without it.
# Writes /verif/seeded/<id>/{patch.diff,demo_test.go,notes.md,meta.json}.
SRC=${1:-/tmp/mut/out}
export GOFLAGS=-mod=mod GOPROXY=off GOSUMDB=off GOTOOLCHAIN=local
WT=/tmp/confirm-wt
git -C /repo worktree remove --force $WT 2>/dev/null
git -C /repo worktree add -q --detach $WT HEAD || exit 1
HEAD=$(git -C /repo log --format=%h -1)
for P in $(ls $SRC | grep '^C'); do
 for M in ${MS:-m1 m2 m3 m4 m5 m6 m7 m8}; do
  D=$SRC/$P/$M
  [ -f $D/patch.diff ] || continue
  ID=$P-$M
  cd $WT && git checkout -q -- . && git clean -fdq
  applies=no; builds=no; suite=0; demo_with=unknown; demo_without=unknown; race=""
  if git apply --check $D/patch.diff 2>/dev/null; then
    applies=yes
    git apply $D/patch.diff
    if go build ./... 2>/dev/null && go build -tags verif ./... 2>/dev/null; then builds=yes; fi
    suite=$(go test -vet=off -count=1 -json ./... 2>/dev/null | grep -c '"Action":"pass","Package":"github.com/6tail/lunar-go/test","Test"')
    cp $D/demo_test.go test/zz_seeded_demo_test.go
    grep -qi "race" $D/notes.md && grep -q "needs.*-race\|requires.*-race" $D/notes.md && race="-race"
    if go test $race -vet=off -count=1 -run 'TestSeeded' ./test/ >/dev/null 2>&1; then demo_with=pass; else demo_with=fail; fi
    git apply -R $D/patch.diff
    if go test $race -vet=off -count=1 -run 'TestSeeded' ./test/ >/dev/null 2>&1; then demo_without=pass; else demo_without=fail; fi
    rm -f test/zz_seeded_demo_test.go
  fi
  echo "$ID applies=$applies builds=$builds suite=$suite demo_with=$demo_with demo_without=$demo_without"
  if [ $applies = yes ] && [ $builds = yes ] && [ "$suite" = 237 ] && [ $demo_with = fail ] && [ $demo_without = pass ]; then
    mkdir -p /verif/seeded/$ID
    cp $D/patch.diff $D/demo_test.go $D/notes.md /verif/seeded/$ID/
    python3 - "$ID" "$P" "$HEAD" "$D" <<'PY'
import json,sys,re
id,prop,head,d=sys.argv[1:5]
notes=open(d+'/notes.md').read()
meta={"id":id,"property":prop,"base_commit":head,
 "needs_to_manifest":"see notes.md (written by the sub-agent that produced the change)",
 "confirmed":{"patch_applies_to_base":True,"builds_with_and_without_verif_tag":True,"existing_suite_with_change":"237/237 pass","demo_with_change":"fails","demo_without_change":"passes",
   "commands":["git apply patch.diff","go build ./... && go build -tags verif ./...","go test -vet=off -count=1 -json ./...","cp demo_test.go test/ && go test -vet=off -count=1 -run TestSeeded ./test/","git apply -R patch.diff && go test -vet=off -count=1 -run TestSeeded ./test/"]},
 "detected_by":[]}
json.dump(meta,open('/verif/seeded/%s/meta.json'%id,'w'),indent=1,ensure_ascii=False)
PY
  fi
 done
done
cd /; git -C /repo worktree remove --force $WT

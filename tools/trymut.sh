#!/bin/bash
# usage: tools/trymut.sh <patch.diff> [-R] <Cxx> [tier]   -- apply a seeded change to /repo, run one check, undo.
P="$1"; shift
REV=""
if [ "$1" = "-R" ]; then REV="-R"; shift; fi
ID="$1"; TIER="${2:-quick}"
cd /repo || exit 9
if [ -n "$(git status --porcelain)" ]; then echo "repo dirty"; exit 9; fi
git apply $REV "$P" || { echo "patch does not apply"; exit 9; }
cd /verif
LUNARMON_OUT=/tmp/trymut-out ./check "$ID" "$TIER" > /tmp/trymut.$$.log 2>&1
rc=$?
git -C /repo checkout -- .
git -C /repo clean -fdq
grep -E "^(VIOLATION|HELD|INCONCLUSIVE|KNOWN)" /tmp/trymut.$$.log | head -5
grep -E "^  violation" /tmp/trymut.$$.log | head -4 | cut -c1-400
echo "rc=$rc $(grep -E 'evaluations=' /tmp/trymut.$$.log | head -1)"
rm -f /tmp/trymut.$$.log
exit $rc

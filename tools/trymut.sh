#!/bin/bash
# usage: tools/trymut.sh <patch.diff> [-R] <Cxx> [tier]
# Applies a seeded change (or reverse-applies a commit's patch with -R) to a SCRATCH worktree of /repo HEAD and runs one
# check against it (LUNARMON_REPO / LUNARMON_OUT): /repo's working tree and /verif/evidence are never touched.
P="$(readlink -f "$1")"; shift
REV=""
if [ "$1" = "-R" ]; then REV="-R"; shift; fi
ID="$1"; TIER="${2:-quick}"
WT=/tmp/trymut-wt-$$
git -C /repo worktree add -q --detach $WT HEAD || exit 9
cleanup() { git -C /repo worktree remove --force $WT 2>/dev/null; rm -rf /tmp/trymut-out-$$ /tmp/trymut.$$.log; }
trap cleanup EXIT
git -C $WT apply $REV "$P" || { echo "patch does not apply"; exit 9; }
cd /verif
LUNARMON_FAILFAST=1 LUNARMON_REPO=$WT LUNARMON_OUT=/tmp/trymut-out-$$ ./check "$ID" "$TIER" > /tmp/trymut.$$.log 2>&1
rc=$?
grep -E "^(VIOLATION|HELD|INCONCLUSIVE|KNOWN)" /tmp/trymut.$$.log | head -5
grep -E "^  violation" /tmp/trymut.$$.log | head -4 | cut -c1-400
echo "rc=$rc $(grep -E 'evaluations=' /tmp/trymut.$$.log | head -1)"
exit $rc

#!/usr/bin/env python3
"""Rewrites the block between MATRIX-BEGIN/END in DESIGN.md from seeded/*/meta.json and seeded/matrix.tsv."""
import json,os,re,collections
root='/verif/seeded'
rows=[]
first={}
if os.path.exists(root+'/matrix.tsv'):
    for l in open(root+'/matrix.tsv', errors='replace'):
        p=l.rstrip('\n').split('\t')
        if len(p)>=4 and p[2]=='1' and (p[0],p[1]) not in first:
            first[(p[0],p[1])]=p[3]
for s in sorted(os.listdir(root)):
    mp=os.path.join(root,s,'meta.json')
    if not os.path.exists(mp): continue
    m=json.load(open(mp))
    notes=open(os.path.join(root,s,'notes.md')).read()
    title=next((l.strip('# ').strip() for l in notes.splitlines() if l.strip()), '')
    title=re.sub(r'\s+',' ',title)[:110]
    det=m.get('detected_by',[])
    mon=''
    for c in det:
        f=first.get((s,c),'')
        g=re.search(r'\[(C\d\d/[^/\]]+)',f)
        if g: mon=g.group(1); break
    rows.append((s,title,', '.join(det) if det else '**not detected (quick tier)**',mon))
out=['| seeded change | what it changes (from its notes.md) | caught by (quick tier) | first monitor to fire |','|---|---|---|---|']
for r in rows: out.append('| %s | %s | %s | %s |'%r)
d=open('/verif/DESIGN.md').read()
d=re.sub(r'<!-- MATRIX-BEGIN -->.*?<!-- MATRIX-END -->','<!-- MATRIX-BEGIN -->\n'+'\n'.join(out)+'\n<!-- MATRIX-END -->',d,flags=re.S)
open('/verif/DESIGN.md','w').write(d)
print(len(rows),'rows;', sum(1 for r in rows if 'not detected' in r[2]),'undetected')

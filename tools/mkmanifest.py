#!/usr/bin/env python3
"""Regenerates /verif/MANIFEST.json from the table below. Usage: tools/mkmanifest.py C01 C04 ... (ids that are implemented)"""
import json, sys, subprocess
impl = sys.argv[1:]
T = {
 "C01": ("round-trip / successor / path-independence (three construction routes) / Next(n) monitors on the civil-day walk, with distractor conversions in between", "reference-model + metamorphic monitors over recorded conversions", "RefCal integer JDN model; month table validated separately by C02/C06"),
 "C02": ("month-start and leap-rule monitor against an independent ephemeris (Meeus new moon + Espenak-Meeus delta-T), a rule re-derivation from the library's precise term instants, and the committed ICU 72 month table", "reference-model monitor with masked margin (independent ephemeris, ICU table)", "RefAstro validated by agreement statistics re-measured each run; ICU table generated once from libicu 72; fixed margins around local midnight"),
 "C03": ("solar-term table invariants, root-at-hook residual (library ephemeris evaluated forward at the reported instant), independent low-precision Sun, sorted-list model of prev/next/current lookups", "invariant at hook + reference-model monitor", "hook VerifSaLon is a thin wrapper; RefAstro Sun good to 20 min for years 1..3000"),
 "C04": ("JD / stepping algebra monitor against the integer JDN reference model; stepped and Julian-day objects compared accessor by accessor with constructed ones; month-end and leap-day stepping sweep", "reference-model monitor (integer civil calendar)", "RefCal self-tested for inverse and continuity over the whole range"),
 "C05": ("pillar monitor at day, 23:00, slot and Jie boundaries against sexagenary arithmetic on JDN and the library's own term instants", "reference-model monitor (sexagenary arithmetic) at boundary-dense moments", "Jie instants are taken from the library's table (validated by C03); anchors 2000-01-01=戊午, 1984=甲子"),
 "C06": ("year-structure invariants on every year table plus month-walk model (concatenated tables as one sequence)", "structural invariants + sequence model monitor", "reform years 8-23 and 236-240 excluded as the property states"),
 "C07": ("accept/reject monitor over argument boxes plus seeded program fuzzer validating every produced object", "accept/reject oracle + program fuzzing with object validation", "validity predicate from RefCal and the month table (tied to conversions by C01)"),
 "C08": ("reflective totality / well-formedness walker over every zero-argument accessor of every reachable object, plus used = fresh and first-call order-independence checks on every root object", "reflection-driven accessor walker with vocabulary and range rules", "closed vocabularies built from first principles or the library's exported tables read at run time"),
 "C09": ("Go race detector (concurrent rounds, shared-object rounds, first-use rounds and timing-independent first-call slots), per-call digest equality across histories, first calls and schedules, lock-free-at-quiescence hook, runtime deadlock detector", "race detector + history/schedule digest monitors + lock invariant hook", "sequential spec is a pure function of the arguments, so linearizability reduces to per-call equality"),
 "C10": ("reverse-lookup monitor: forward conversion as specification for soundness, completeness per two-hour slot, ordering", "round-trip monitor with forward conversion as oracle", "time.Now().Year() read once and treated as an input"),
 "C11": ("route-equivalence table plus chart functional-dependency monitor", "metamorphic route-equivalence + functional-dependency monitors", "pairs of routes taken from the documented equivalences"),
 "C12": ("fortune-chain monitor: direction, start offset, decade chaining, pillar stepping re-implemented from the property text", "reference-model monitor (rule re-implementation)", "Jie instants from the library's table; school-1 slot reading as in DESIGN C12"),
 "C13": ("seasonal-rule monitor: nine-nines, dog days, pentads, Chuxi, Hanshi, She re-implemented over term days and day stems", "reference-model monitor (rule re-implementation) on the day walk", "term days from the library's table (validated by C03)"),
 "C14": ("holiday view monitor against a record-set model parsed from the hooked raw table (in calendar order and shuffled), workday stepping model, Fix fuzzer and a sweep of every possible single addition", "record-set model monitor + fix-up fuzzing at a state hook", "hook VerifDataInUse/VerifReset; statutory list from the property text"),
 "C15": ("partition / navigation monitor against a JDN-based week model", "reference-model monitor (JDN week model)", "RefCal weekday"),
 "C16": ("nine-star step monitor: year/month/day/hour rules re-implemented, naming tables consistent", "reference-model monitor (rule re-implementation) on the day walk", "year pillar conventions from C05's reference; solstice days from the library's table"),
 "C17": ("Tao/Foto offset, round-trip and day-class predicate monitor", "reference-model + functional-dependency monitors", "published day lists read from the library's exported tables (open data)"),
 "C18": ("functional-dependency monitors keyed by the declared defining inputs plus classical-law checks", "functional-dependency monitors over recorded accessor values", "keys read from the same object's pillar getters (validated by C05)"),
 "C19": ("print/parse/order monitor with independent parsers, a direct print-alike map over each walked year, prints of stepped objects", "round-trip (print-parse) and order monitors", "Chinese numeral/month/day vocabularies built in the harness"),
 "C20": ("zodiac partition and k-th weekday festival monitor against RefCal, also on objects reached by stepping or through a Julian day, plus two single-process history passes", "reference-model monitor + exactly-once counters", "conventional sign start days and the festival tables read at run time"),
}
commits = subprocess.run(["git","-C","/repo","log","--format=%h %s","--grep=^verif hooks"],capture_output=True,text=True).stdout.strip().splitlines()
checks=[]; na=[]
for pid in sorted(T):
    what, tech, note = T[pid]
    if pid in impl:
        checks.append({
          "property_id": pid,
          "quick_cmd": f"./check {pid} quick",
          "thorough_cmd": f"./check {pid} thorough",
          "evidence_file": f"/verif/evidence/{pid}.json",
          "replay_cmd_template": f"./check {pid} --replay {{path}}",
          "engine": "lunarmon",
          "level_claimed": {"category":"exploration","text": f"Runtime monitoring: the real library is driven over exhaustive / boundary-dense / seeded workloads in worker processes and every observation is judged by a deterministic oracle ({what}). Held means 'held on the executions counted in the evidence file', not a proof; reach comes from workload breadth and boundary classes.", "design_ref": f"DESIGN.md §4 {pid}"},
          "level_note": note,
          "technique": tech,
        })
    else:
        na.append({"property_id": pid, "reason": "monitor designed (DESIGN.md §4) but not yet built in this round; not claimed until its check exists and is silent on the unchanged tree"})
m = {
 "version": 1,
 "setup_cmd": "./check --setup",
 "hooks": {"guard":"verif","enable":"go build -tags verif (harness module with replace github.com/6tail/lunar-go => /repo)","baseline_off_cmd":"cd /repo && GOFLAGS=-mod=mod GOPROXY=off GOSUMDB=off go test -vet=off -count=1 -json ./...","source_commits":[c.split()[0] for c in commits],"add_only":True},
 "engines":[{"name":"lunarmon","path":"/verif/harness","serves_properties":[c["property_id"] for c in checks],"kind_free_text":"Go harness: worker processes drive the real library (built from /repo's working tree with -tags verif) and stream observations to deterministic oracles; race-detector build for C09"}],
 "checks": checks,
 "notes": "exit 0 held, 1 violation (VIOLATION line + replay file), 2 inconclusive/infrastructure. known_findings.json lists fixed and open findings.",
 "not_applicable": na,
}
json.dump(m, open("/verif/MANIFEST.json","w"), indent=1, ensure_ascii=False)
print("claimed", len(checks), "not_applicable", len(na))

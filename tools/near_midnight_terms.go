//go:build ignore

// go run -tags verif tools/near_midnight_terms.go (from /verif/harness): lists solar terms within 2 s of local midnight.
package main

import (
	"fmt"
	"math"

	"github.com/6tail/lunar-go/calendar"
)

func main() {
	for y := 1; y <= 9998; y++ {
		for i, jd := range calendar.NewLunarYear(y).GetJieQiJulianDays() {
			f := (jd + 0.5 - math.Floor(jd+0.5)) * 86400
			if (f < 2 || f > 86398) && i >= 2 && i <= 25 {
				fmt.Println(y, calendar.JIE_QI_IN_USE[i], calendar.NewSolarFromJulianDay(jd).ToYmdHms(), f)
			}
		}
	}
}

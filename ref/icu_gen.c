/* Generator of icu72_chinese_1900_2100.tsv: first civil day, month number and leap flag of every
 * Chinese month as computed by ICU's ChineseCalendar (libicu 72), time zone Asia/Shanghai fixed at UTC+8.
 * Build: gcc icu_gen.c -o icu_gen -licui18n -licuuc ; ./icu_gen > icu72_chinese_1900_2100.tsv
 * The check reads only the committed table; this file is kept for provenance. */
#include <stdio.h>
#include <unicode/ucal.h>
#include <unicode/ustring.h>
int main(void) {
  UErrorCode st = U_ZERO_ERROR;
  UChar tz[32]; u_uastrcpy(tz, "GMT+08:00");
  UCalendar *cc = ucal_open(tz, -1, "zh_CN@calendar=chinese", UCAL_DEFAULT, &st);
  UCalendar *gc = ucal_open(tz, -1, "en_US@calendar=gregorian", UCAL_GREGORIAN, &st);
  if (U_FAILURE(st)) { fprintf(stderr, "open failed %s\n", u_errorName(st)); return 1; }
  ucal_setGregorianChange(gc, -1e18, &st);
  st = U_ZERO_ERROR;
  /* walk every civil day from 1899-12-01 to 2101-03-01 at 12:00 local; print when chinese day == 1 */
  ucal_clear(gc);
  ucal_setDateTime(gc, 1899, 11, 1, 12, 0, 0, &st);
  UDate t = ucal_getMillis(gc, &st);
  ucal_setDateTime(gc, 2101, 2, 1, 12, 0, 0, &st);
  UDate end = ucal_getMillis(gc, &st);
  printf("# first_civil_day\tmonth\tleap\tera_year_cycle\n");
  for (; t <= end; t += 86400000.0) {
    ucal_setMillis(cc, t, &st);
    int d = ucal_get(cc, UCAL_DAY_OF_MONTH, &st);
    if (d != 1) continue;
    int m = ucal_get(cc, UCAL_MONTH, &st) + 1;
    int leap = ucal_get(cc, UCAL_IS_LEAP_MONTH, &st);
    int ey = ucal_get(cc, UCAL_EXTENDED_YEAR, &st);
    ucal_setMillis(gc, t, &st);
    printf("%04d-%02d-%02d\t%d\t%d\t%d\n", ucal_get(gc, UCAL_YEAR, &st), ucal_get(gc, UCAL_MONTH, &st) + 1, ucal_get(gc, UCAL_DATE, &st), m, leap, ey);
  }
  if (U_FAILURE(st)) { fprintf(stderr, "error %s\n", u_errorName(st)); return 1; }
  return 0;
}

package ref

// Sexagenary arithmetic, anchored on public facts only:
// 2000-01-01 (JDN 2451545) is a 戊午 day; 1984 is a 甲子 year.

var Stems = []string{"甲", "乙", "丙", "丁", "戊", "己", "庚", "辛", "壬", "癸"}
var Branches = []string{"子", "丑", "寅", "卯", "辰", "巳", "午", "未", "申", "酉", "戌", "亥"}
var Animals = []string{"鼠", "牛", "虎", "兔", "龙", "蛇", "马", "羊", "猴", "鸡", "狗", "猪"}

func mod(a, n int) int { return ((a % n) + n) % n }

// Pair60 returns the name of the i-th pair of the 60-cycle (0 = 甲子).
func Pair60(i int) string {
	i = mod(i, 60)
	return Stems[i%10] + Branches[i%12]
}

var pairIndex = func() map[string]int {
	m := map[string]int{}
	for i := 0; i < 60; i++ {
		m[Pair60(i)] = i
	}
	return m
}()

// PairIndex returns the 60-cycle index of a pair name, or -1.
func PairIndex(s string) int {
	if v, ok := pairIndex[s]; ok {
		return v
	}
	return -1
}

// PairFrom returns the 60-cycle index with the given stem and branch index, or -1 if parities differ.
func PairFrom(stem, branch int) int {
	if mod(stem, 2) != mod(branch, 2) {
		return -1
	}
	for i := 0; i < 60; i++ {
		if i%10 == mod(stem, 10) && i%12 == mod(branch, 12) {
			return i
		}
	}
	return -1
}

// DayPair is the 60-cycle index of the civil day with the given JDN.
func DayPair(jdn int) int { return mod(jdn+49, 60) }

// YearPair is the 60-cycle index of year y (1984 = 0).
func YearPair(y int) int { return mod(y-4, 60) }

// FirstMonthStem: five-tigers rule - the stem of the 寅 month of a year with the given year stem.
func FirstMonthStem(yearStem int) int { return mod(yearStem%5*2+2, 10) }

// RatHourStem: five-rats rule - the stem of the 子 hour of a day with the given day stem.
func RatHourStem(dayStem int) int { return mod(dayStem%5*2, 10) }

// HourBranch: the branch of the two-hour slot containing hour h (23 and 0 -> 子).
func HourBranch(h int) int { return mod((h+1)/2, 12) }

// XunIndex: which decade (旬) of the 60-cycle the pair is in: 0 甲子,1 甲戌,2 甲申,3 甲午,4 甲辰,5 甲寅.
func XunIndex(pair int) int { return mod(pair, 60) / 10 }

var XunNames = []string{"甲子", "甲戌", "甲申", "甲午", "甲辰", "甲寅"}
var XunKongNames = []string{"戌亥", "申酉", "午未", "辰巳", "寅卯", "子丑"}

package ref

import (
	"math"
	"testing"
)

func TestCal(t *testing.T) {
	if JDN(2000, 1, 1) != 2451545 || Weekday(2451545) != 6 {
		t.Fatal("2000-01-01")
	}
	if JDN(1582, 10, 15) != 2299161 || JDN(1582, 10, 4) != 2299160 {
		t.Fatal("1582")
	}
	if JDN(-4712+1-1+1, 1, 1) == 0 {
		// not asserted: year numbering below 1 unused
	}
	prev := MinJDN - 1
	n := 0
	for y := 1; y <= 9999; y++ {
		for m := 1; m <= 12; m++ {
			for d := 1; d <= 31; d++ {
				if !Exists(y, m, d) {
					continue
				}
				j := JDN(y, m, d)
				if j != prev+1 {
					t.Fatalf("gap at %d-%d-%d: %d after %d", y, m, d, j, prev)
				}
				prev = j
				yy, mm, dd := FromJDN(j)
				if yy != y || mm != m || dd != d {
					t.Fatalf("inverse at %d-%d-%d -> %d-%d-%d", y, m, d, yy, mm, dd)
				}
				n++
			}
		}
	}
	if n != 3651696+365 {
		t.Fatalf("days %d", n)
	}
	if DaysInYear(1582) != 355 || DaysInMonth(1582, 10) != 21 || !IsLeap(1500) || IsLeap(1700) || !IsLeap(1600) {
		t.Fatal("lengths")
	}
	s := Stamp{1582, 10, 4, 23, 59, 59}
	if FromSecs(s.Secs()+1) != (Stamp{1582, 10, 15, 0, 0, 0}) {
		t.Fatal("secs")
	}
}

func TestGZ(t *testing.T) {
	if Pair60(DayPair(2451545)) != "戊午" || Pair60(YearPair(1984)) != "甲子" || Pair60(YearPair(2024)) != "甲辰" {
		t.Fatal("anchors")
	}
	if FirstMonthStem(0) != 2 || FirstMonthStem(5) != 2 || FirstMonthStem(4) != 0 || RatHourStem(0) != 0 || RatHourStem(1) != 2 {
		t.Fatal("rules")
	}
	if HourBranch(23) != 0 || HourBranch(0) != 0 || HourBranch(1) != 1 || HourBranch(22) != 11 {
		t.Fatal("hour branch")
	}
}

func TestAstro(t *testing.T) {
	for _, b := range []float64{-500, 500, 1600, 1700, 1800, 1860, 1900, 1920, 1941, 1961, 1986, 2005, 2050, 2150} {
		if math.Abs(DeltaT(b-1e-9)-DeltaT(b)) > 0.3 {
			t.Fatalf("deltaT discontinuity at %v: %v %v", b, DeltaT(b-1e-9), DeltaT(b))
		}
	}
	// New moon of 2000-01-06 18:14 UT
	nm := NewMoonJDE(0)
	if math.Abs(nm-2451550.2601) > 0.001 {
		t.Fatalf("new moon k=0 %v", nm)
	}
	// March equinox 2000: 2000-03-20 07:35 UT = JD 2451623.816 ; TT +64s
	if d := AngDiff(SunLon(2451623.8167), 0); math.Abs(d) > 0.01 {
		t.Fatalf("equinox residual %v", d)
	}
}

// Package ref holds the independent reference models used as oracles.
// Nothing in this package imports lunar-go.
package ref

// Civil calendar: Julian up to 1582-10-04, Gregorian from 1582-10-15,
// the ten days in between do not exist. Integer algorithms only.

const GregorianStartJDN = 2299161 // 1582-10-15

func floorDiv(a, b int) int {
	q := a / b
	if (a%b != 0) && ((a < 0) != (b < 0)) {
		q--
	}
	return q
}

func jdnGregorian(y, m, d int) int {
	a := floorDiv(14-m, 12)
	yy := y + 4800 - a
	mm := m + 12*a - 3
	return d + floorDiv(153*mm+2, 5) + 365*yy + floorDiv(yy, 4) - floorDiv(yy, 100) + floorDiv(yy, 400) - 32045
}

func jdnJulian(y, m, d int) int {
	a := floorDiv(14-m, 12)
	yy := y + 4800 - a
	mm := m + 12*a - 3
	return d + floorDiv(153*mm+2, 5) + 365*yy + floorDiv(yy, 4) - 32083
}

// IsGregorianDate reports whether (y,m,d) is on or after 1582-10-15.
func IsGregorianDate(y, m, d int) bool {
	return y*10000+m*100+d >= 15821015
}

// JDN is the Julian Day Number (the integer JD at noon) of a civil date.
// The date is assumed to exist (see Exists).
func JDN(y, m, d int) int {
	if IsGregorianDate(y, m, d) {
		return jdnGregorian(y, m, d)
	}
	return jdnJulian(y, m, d)
}

// FromJDN is the inverse of JDN.
func FromJDN(j int) (y, m, d int) {
	var f int
	if j >= GregorianStartJDN {
		f = j + 1401 + floorDiv(floorDiv(4*j+274277, 146097)*3, 4) - 38
	} else {
		f = j + 1401
	}
	e := 4*f + 3
	g := floorDiv(e%1461, 4)
	h := 5*g + 2
	d = floorDiv(h%153, 5) + 1
	m = (floorDiv(h, 153)+2)%12 + 1
	y = floorDiv(e, 1461) - 4716 + floorDiv(12+2-m, 12)
	return
}

// IsLeap: Julian rule through 1582, Gregorian rule afterwards.
func IsLeap(y int) bool {
	if y <= 1582 {
		return ((y%4)+4)%4 == 0
	}
	return (y%4 == 0 && y%100 != 0) || y%400 == 0
}

var mdays = [13]int{0, 31, 28, 31, 30, 31, 30, 31, 31, 30, 31, 30, 31}

// LastDayOfMonth is the largest day number in the month (31 for 1582-10).
func LastDayOfMonth(y, m int) int {
	if m == 2 && IsLeap(y) {
		return 29
	}
	return mdays[m]
}

// DaysInMonth is the number of existing days in the month (21 for 1582-10).
func DaysInMonth(y, m int) int {
	if y == 1582 && m == 10 {
		return 21
	}
	return LastDayOfMonth(y, m)
}

func DaysInYear(y int) int {
	if y == 1582 {
		return 355
	}
	if IsLeap(y) {
		return 366
	}
	return 365
}

// Exists reports whether the civil date exists.
func Exists(y, m, d int) bool {
	if m < 1 || m > 12 || d < 1 {
		return false
	}
	if d > LastDayOfMonth(y, m) {
		return false
	}
	if y == 1582 && m == 10 && d > 4 && d < 15 {
		return false
	}
	return true
}

// Weekday: 0 = Sunday.
func Weekday(jdn int) int {
	return ((jdn+1)%7 + 7) % 7
}

// DayOfYear: ordinal of the date among the existing days of its year (1-based).
func DayOfYear(y, m, d int) int {
	return JDN(y, m, d) - JDN(y, 1, 1) + 1
}

// Stamp is a civil date-time.
type Stamp struct{ Y, M, D, H, Mi, S int }

// Secs is seconds since JDN 0 00:00:00 (civil midnight starting the day whose noon is JDN 0).
func (s Stamp) Secs() int64 {
	return int64(JDN(s.Y, s.M, s.D))*86400 + int64(s.H*3600+s.Mi*60+s.S)
}

func FromSecs(t int64) Stamp {
	day := t / 86400
	r := t % 86400
	if r < 0 {
		r += 86400
		day--
	}
	y, m, d := FromJDN(int(day))
	return Stamp{y, m, d, int(r / 3600), int(r % 3600 / 60), int(r % 60)}
}

func (s Stamp) Valid() bool {
	return Exists(s.Y, s.M, s.D) && s.H >= 0 && s.H <= 23 && s.Mi >= 0 && s.Mi <= 59 && s.S >= 0 && s.S <= 59
}

// JD is the real-valued Julian Day of the stamp (noon = integer).
func (s Stamp) JD() float64 {
	return float64(JDN(s.Y, s.M, s.D)) - 0.5 + float64(s.H*3600+s.Mi*60+s.S)/86400
}

// First and last supported civil days.
var (
	MinJDN = JDN(1, 1, 1)
	MaxJDN = JDN(9998, 12, 31)
)

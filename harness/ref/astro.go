package ref

import "math"

// RefAstro: an ephemeris that shares no code or data with lunar-go's ShouXingUtil.
// Meeus, Astronomical Algorithms: ch.49 (new moon), ch.25 (low-precision Sun);
// Espenak-Meeus piecewise delta-T polynomials. Validated by agreement statistics
// (see DESIGN Appendix B), and re-measured by the self-test on every run.

// DeltaT returns TT-UT in seconds for decimal year y (Espenak-Meeus).
func DeltaT(y float64) float64 {
	p := math.Pow
	switch {
	case y < -500:
		u := (y - 1820) / 100
		return -20 + 32*u*u
	case y < 500:
		u := y / 100
		return 10583.6 - 1014.41*u + 33.78311*u*u - 5.952053*p(u, 3) - 0.1798452*p(u, 4) + 0.022174192*p(u, 5) + 0.0090316521*p(u, 6)
	case y < 1600:
		u := (y - 1000) / 100
		return 1574.2 - 556.01*u + 71.23472*u*u + 0.319781*p(u, 3) - 0.8503463*p(u, 4) - 0.005050998*p(u, 5) + 0.0083572073*p(u, 6)
	case y < 1700:
		t := y - 1600
		return 120 - 0.9808*t - 0.01532*t*t + p(t, 3)/7129
	case y < 1800:
		t := y - 1700
		return 8.83 + 0.1603*t - 0.0059285*t*t + 0.00013336*p(t, 3) - p(t, 4)/1174000
	case y < 1860:
		t := y - 1800
		return 13.72 - 0.332447*t + 0.0068612*t*t + 0.0041116*p(t, 3) - 0.00037436*p(t, 4) + 0.0000121272*p(t, 5) - 0.0000001699*p(t, 6) + 0.000000000875*p(t, 7)
	case y < 1900:
		t := y - 1860
		return 7.62 + 0.5737*t - 0.251754*t*t + 0.01680668*p(t, 3) - 0.0004473624*p(t, 4) + p(t, 5)/233174
	case y < 1920:
		t := y - 1900
		return -2.79 + 1.494119*t - 0.0598939*t*t + 0.0061966*p(t, 3) - 0.000197*p(t, 4)
	case y < 1941:
		t := y - 1920
		return 21.20 + 0.84493*t - 0.076100*t*t + 0.0020936*p(t, 3)
	case y < 1961:
		t := y - 1950
		return 29.07 + 0.407*t - t*t/233 + p(t, 3)/2547
	case y < 1986:
		t := y - 1975
		return 45.45 + 1.067*t - t*t/260 - p(t, 3)/718
	case y < 2005:
		t := y - 2000
		return 63.86 + 0.3345*t - 0.060374*t*t + 0.0017275*p(t, 3) + 0.000651814*p(t, 4) + 0.00002373599*p(t, 5)
	case y < 2050:
		t := y - 2000
		return 62.92 + 0.32217*t + 0.005589*t*t
	case y < 2150:
		u := (y - 1820) / 100
		return -20 + 32*u*u - 0.5628*(2150-y)
	}
	u := (y - 1820) / 100
	return -20 + 32*u*u
}

// JDToYear: decimal year of a Julian Day.
func JDToYear(jd float64) float64 { return 2000 + (jd-2451545.0)/365.2425 }

func rad(d float64) float64 { return d * math.Pi / 180 }

// NewMoonJDE returns the instant (JDE, i.e. TT) of the k-th new moon (k=0: 2000-01-06).
func NewMoonJDE(k float64) float64 {
	T := k / 1236.85
	jde := 2451550.09766 + 29.530588861*k + 0.00015437*T*T - 0.000000150*T*T*T + 0.00000000073*T*T*T*T
	E := 1 - 0.002516*T - 0.0000074*T*T
	M := rad(2.5534 + 29.10535670*k - 0.0000014*T*T - 0.00000011*T*T*T)
	Mp := rad(201.5643 + 385.81693528*k + 0.0107582*T*T + 0.00001238*T*T*T - 0.000000058*T*T*T*T)
	F := rad(160.7108 + 390.67050284*k - 0.0016118*T*T - 0.00000227*T*T*T + 0.000000011*T*T*T*T)
	Om := rad(124.7746 - 1.56375588*k + 0.0020672*T*T + 0.00000215*T*T*T)
	s := math.Sin
	c := -0.40720*s(Mp) + 0.17241*E*s(M) + 0.01608*s(2*Mp) + 0.01039*s(2*F) + 0.00739*E*s(Mp-M) - 0.00514*E*s(Mp+M) +
		0.00208*E*E*s(2*M) - 0.00111*s(Mp-2*F) - 0.00057*s(Mp+2*F) + 0.00056*E*s(2*Mp+M) - 0.00042*s(3*Mp) +
		0.00042*E*s(M+2*F) + 0.00038*E*s(M-2*F) - 0.00024*E*s(2*Mp-M) - 0.00017*s(Om) - 0.00007*s(Mp+2*M) +
		0.00004*s(2*Mp-2*F) + 0.00004*s(3*M) + 0.00003*s(Mp+M-2*F) + 0.00003*s(2*Mp+2*F) - 0.00003*s(Mp+M+2*F) +
		0.00003*s(Mp-M+2*F) - 0.00002*s(Mp-M-2*F) - 0.00002*s(3*Mp+M) + 0.00002*s(4*Mp)
	A := [][2]float64{
		{299.77 + 0.107408*k - 0.009173*T*T, 0.000325}, {251.88 + 0.016321*k, 0.000165}, {251.83 + 26.651886*k, 0.000164},
		{349.42 + 36.412478*k, 0.000126}, {84.66 + 18.206239*k, 0.000110}, {141.74 + 53.303771*k, 0.000062}, {207.14 + 2.453732*k, 0.000060},
		{154.84 + 7.306860*k, 0.000056}, {34.52 + 27.261239*k, 0.000047}, {207.19 + 0.121824*k, 0.000042}, {291.34 + 1.844379*k, 0.000040},
		{161.72 + 24.198154*k, 0.000037}, {239.56 + 25.513099*k, 0.000035}, {331.55 + 3.592518*k, 0.000023}}
	for _, a := range A {
		c += a[1] * s(rad(a[0]))
	}
	return jde + c
}

// NewMoonNearLocal returns the new-moon instant nearest to the given UTC+8 Julian Day,
// expressed as a UTC+8 Julian Day (TT - deltaT + 8h).
func NewMoonNearLocal(jdLocal float64) float64 {
	k := math.Round((jdLocal - 2451550.09766) / 29.530588861)
	best := math.NaN()
	for kk := k - 1; kk <= k+1; kk++ {
		jde := NewMoonJDE(kk)
		loc := jde - DeltaT(JDToYear(jde))/86400 + 8.0/24
		if math.IsNaN(best) || math.Abs(loc-jdLocal) < math.Abs(best-jdLocal) {
			best = loc
		}
	}
	return best
}

// SunLon returns the apparent geocentric ecliptic longitude of the Sun (degrees, 0..360) at JDE (TT).
func SunLon(jde float64) float64 {
	T := (jde - 2451545.0) / 36525
	L0 := 280.46646 + 36000.76983*T + 0.0003032*T*T
	M := rad(357.52911 + 35999.05029*T - 0.0001537*T*T)
	C := (1.914602-0.004817*T-0.000014*T*T)*math.Sin(M) + (0.019993-0.000101*T)*math.Sin(2*M) + 0.000289*math.Sin(3*M)
	Om := rad(125.04 - 1934.136*T)
	l := math.Mod(L0+C-0.00569-0.00478*math.Sin(Om), 360)
	if l < 0 {
		l += 360
	}
	return l
}

// SunLonAtLocal: apparent solar longitude at a UTC+8 Julian Day (using Espenak-Meeus delta-T).
func SunLonAtLocal(jdLocal float64) float64 {
	ut := jdLocal - 8.0/24
	tt := ut + DeltaT(JDToYear(ut))/86400
	return SunLon(tt)
}

// AngDiff returns a-b folded into (-180, 180].
func AngDiff(a, b float64) float64 {
	d := math.Mod(a-b, 360)
	if d > 180 {
		d -= 360
	}
	if d <= -180 {
		d += 360
	}
	return d
}

// DegPerMinute is the mean solar motion in degrees per minute of time.
const DegPerMinute = 360.0 / 365.2422 / 1440

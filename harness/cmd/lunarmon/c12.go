package main

// C12 - fortune periods chain contiguously and match pillars and calendar years.
// The rules of the property are re-implemented over RefCal / RefGZ and the object's own Jie instants.

import (
	"fmt"

	"github.com/6tail/lunar-go/calendar"
	"lunarmon/ref"
)

func init() {
	register(&Prop{
		ID:   "C12",
		Rule: "cases: one civil year each; births at Jie instants (J-61s, J-1s, J, J+1s, J+61s), 22:59:59/23:00:00/23:59:59 on Jie days, 29 February, year ends and seeded moments; for each birth both genders x both start-offset schools: direction, start offset (re-derived from the minute difference for school 2 and from day/two-hour-slot differences for school 1), ranges, start date (birth + offset by RefCal), every great fortune 0..9 (years, ages, contiguity, pillar stepping from the month pillar), every annual fortune (year, age, pillar of its calendar year), every monthly fortune (five-tigers from that year's stem) and every minor fortune (stepping from the hour pillar by age). distinct_nontrivial counts distinct (birth, gender, school) charts.",
		Assumptions: []string{
			"school 1 counts 23:xx with the day's last two-hour slot (keeps slot differences monotone inside a civil day), as validated against the library at design time",
			"Jie instants and the exact month/hour pillars are read from the birth's Lunar (validated by C03/C05)",
		},
		Gen: c12Gen, Run: c12Run,
		BlockKind: "year", BlockQuick: [2]int{6, 4}, BlockThorough: [2]int{60, 20},
		Exhaustive: func(tier string) bool { return false },
		MinEvals:   map[string]int64{"quick": 1000000, "thorough": 30000000},
		Chunks:     128,
	})
}

func c12Gen(g *Gen) []Case {
	var ys []int
	if g.Quick {
		for _, y := range sampleYears(g.Rng, 150, true) {
			if y <= 9900 {
				ys = append(ys, y)
			}
		}
	} else {
		for y := 1; y <= 9900; y++ {
			ys = append(ys, y)
		}
	}
	// leap years 4, 8 and 12 years before a century year that is not a leap year (a fortune that starts a whole number
	// of years after a 29 February lands on a date that does not exist there): all of them in thorough, 1692..2292 and a
	// seeded dozen in quick
	for c := 1700; c <= 9900; c += 100 {
		if c%400 == 0 {
			continue
		}
		for _, k := range []int{4, 8, 12} {
			if !g.Quick || (c >= 1700 && c <= 2300) || g.Rng.Intn(16) == 0 {
				ys = append(ys, c-k)
			}
		}
	}
	return yearCases("year", ys)
}

func c12Slot(h int) int {
	if h == 23 {
		return 11
	}
	return (h + 1) / 2
}

// addMonthsClamped: RefCal model of "same day of the target month, clamped to the month end".
func addMonthsClamped(y, m, d, n int) (int, int, int, bool) {
	t := y*12 + (m - 1) + n
	ty, tm := floorDivI(t, 12), modI(t, 12)+1
	if d > ref.LastDayOfMonth(ty, tm) {
		d = ref.LastDayOfMonth(ty, tm)
	}
	return ty, tm, d, ref.Exists(ty, tm, d)
}

func c12Birth(w *W, st ref.Stamp, class string) {
	birth := fmtStamp(st)
	l := solarOf(st).GetLunar()
	ec := l.GetEightChar()
	// previous / next Jie from the term table by the rule (latest at-or-before, earliest strictly after),
	// not through GetPrevJie/GetNextJie, which are under test here as much as in C03
	var prevJ, nextJ *ref.Stamp
	tbl := l.GetJieQiTable()
	for p := 0; p <= 30; p += 2 {
		e := tbl[termKeys31[p]]
		if e == nil {
			continue
		}
		es := stampOf(e)
		if es.Secs() <= st.Secs() {
			c := es
			prevJ = &c
		} else if nextJ == nil {
			c := es
			nextJ = &c
		}
	}
	if prevJ == nil || nextJ == nil {
		w.Violatef("jie", birth, "no previous/next Jie for birth %s in its term table", birth)
		return
	}
	// the same birth built from the lunar side must give the same fortunes (leap months, months 11-12-1, lead days)
	if lm := l.GetMonth(); lm < 0 || lm >= 11 || lm == 1 || l.GetYear() != st.Y {
		var l2 *calendar.Lunar
		if pv := Call(func() { l2 = calendar.NewLunar(l.GetYear(), lm, l.GetDay(), st.H, st.Mi, st.S) }); pv != nil {
			w.Violatef("lunar-route", birth, "NewLunar(%d,%d,%d,..) for birth %s panicked: %v", l.GetYear(), lm, l.GetDay(), birth, pv)
		} else {
			sig := func(x *calendar.Lunar) string {
				s := ""
				for g := 0; g <= 1; g++ {
					y := x.GetEightChar().GetYunBySect(g, 1+g)
					s += yunStr(y)
					d := y.GetDaYun()[1]
					ln := d.GetLiuNian()
					s += ln[0].GetGanZhi() + ln[9].GetGanZhi() + ln[0].GetLiuYue()[0].GetGanZhi() + d.GetXiaoYun()[0].GetGanZhi()
				}
				return s
			}
			if a, b := sig(l), sig(l2); a != b {
				w.Violatef("lunar-route", birth, "fortunes of birth %s differ between Solar.GetLunar() and NewLunar(%d,%d,%d,..): %s vs %s", birth, l.GetYear(), lm, l.GetDay(), a, b)
			}
			w.Eval(1)
			w.Count("lunar-side-births", 1)
		}
	}
	mIdx := ref.PairIndex(l.GetMonthInGanZhiExact())
	tIdx := ref.PairIndex(l.GetTimeInGanZhi())
	yang := ref.PairIndex(l.GetYearInGanZhiExact())%2 == 0
	for gender := 0; gender <= 1; gender++ {
		for sect := 1; sect <= 2; sect++ {
			tag := fmt.Sprintf("%s/g%d/s%d", birth, gender, sect)
			w.Cur("C12 chart " + tag)
			yun := ec.GetYunBySect(gender, sect)
			fw := (yang && gender == 1) || (!yang && gender == 0)
			if yun.IsForward() != fw {
				w.Violatef("direction", tag, "birth %s gender %d: IsForward=%v but the exact year pillar %s is yang=%v", birth, gender, yun.IsForward(), l.GetYearInGanZhiExact(), yang)
			}
			a, b := st, *nextJ
			if !fw {
				a, b = *prevJ, st
			}
			ja, jb := ref.JDN(a.Y, a.M, a.D), ref.JDN(b.Y, b.M, b.D)
			var Y, M, D, H int
			if sect == 2 {
				min := (jb-ja)*1440 + (b.H*60 + b.Mi) - (a.H*60 + a.Mi)
				Y = min / 4320
				min -= Y * 4320
				M = min / 360
				min -= M * 360
				D = min / 12
				min -= D * 12
				H = min * 2
			} else {
				slots := (jb-ja)*12 + c12Slot(b.H) - c12Slot(a.H)
				total := slots / 12 * 120 // one day = four months = 120 days
				total += slots % 12 * 10  // one slot = ten days
				Y = total / 360
				M = total % 360 / 30
				D = total % 30
			}
			// each component asked first on a fresh fortune object (no accessor relies on another having run before it)
			for _, c := range []struct {
				name string
				get  func(*calendar.Yun) int
				want int
			}{{"hour", (*calendar.Yun).GetStartHour, H}, {"year", (*calendar.Yun).GetStartYear, Y}, {"month", (*calendar.Yun).GetStartMonth, M}, {"day", (*calendar.Yun).GetStartDay, D}} {
				if got := c.get(solarOf(st).GetLunar().GetEightChar().GetYunBySect(gender, sect)); got != c.want {
					w.Violatef("start-offset", tag+"/first-call/"+c.name, "birth %s gender %d school %d: start-offset %s asked first on a fresh object = %d, rule gives %d", birth, gender, sect, c.name, got, c.want)
				}
			}
			if yun.GetStartYear() != Y || yun.GetStartMonth() != M || yun.GetStartDay() != D || yun.GetStartHour() != H {
				w.Violatef("start-offset", tag, "birth %s gender %d school %d (forward=%v, Jie %s): start offset %dy %dm %dd %dh, rule gives %dy %dm %dd %dh", birth, gender, sect, fw, fmtStamp(map[bool]ref.Stamp{true: b, false: a}[fw]), yun.GetStartYear(), yun.GetStartMonth(), yun.GetStartDay(), yun.GetStartHour(), Y, M, D, H)
			}
			if yun.GetStartMonth() < 0 || yun.GetStartMonth() > 11 || yun.GetStartDay() < 0 || yun.GetStartDay() > 29 || yun.GetStartHour() < 0 || yun.GetStartHour() > 23 || yun.GetStartYear() < 0 {
				w.Violatef("start-range", tag, "start offset components out of range: %dy %dm %dd %dh", yun.GetStartYear(), yun.GetStartMonth(), yun.GetStartDay(), yun.GetStartHour())
			}
			if yun.GetGender() != gender {
				w.Violatef("direction", tag+"/gender", "GetGender()=%d", yun.GetGender())
			}
			// start date = birth + years + months + days + hours
			ss := yun.GetStartSolar()
			ty := st.Y + Y
			td := st.D
			if st.M == 2 && td > ref.LastDayOfMonth(ty, 2) {
				td = ref.LastDayOfMonth(ty, 2)
			}
			gapOK := ref.Exists(ty, st.M, td)
			my, mm, md, ok2 := addMonthsClamped(ty, st.M, td, M)
			if gapOK && ok2 {
				want := ref.FromSecs(ref.Stamp{Y: my, M: mm, D: md, H: st.H, Mi: st.Mi, S: st.S}.Secs() + int64(D)*86400 + int64(H)*3600)
				if stampOf(ss) != want {
					w.Violatef("start-date", tag, "GetStartSolar()=%s, birth %s + %dy %dm %dd %dh = %s", ss.ToYmdHms(), birth, Y, M, D, H, fmtStamp(want))
				}
			}
			w.Eval(5)
			// the By(n) variants list the same periods, only more or fewer of them
			for _, n := range []int{1, 3, 12, 16} {
				by := yun.GetDaYunBy(n)
				if len(by) != n {
					w.Violatef("dayun", fmt.Sprintf("%s/by%d/len", tag, n), "GetDaYunBy(%d) has %d entries", n, len(by))
					continue
				}
				for i, dy := range by {
					if i == 1 || (i > 1 && i == n-1) {
						step := i
						if !fw {
							step = -i
						}
						if dy.GetIndex() != i || dy.GetStartYear() != ss.GetYear()+(i-1)*10 || dy.GetGanZhi() != ref.Pair60(mIdx+step+600) {
							w.Violatef("dayun", fmt.Sprintf("%s/by%d/%d", tag, n, i), "GetDaYunBy(%d)[%d]: index %d start %d pillar %s", n, i, dy.GetIndex(), dy.GetStartYear(), dy.GetGanZhi())
						}
						for _, k := range []int{2, 13} {
							ln := dy.GetLiuNianBy(k)
							xy := dy.GetXiaoYunBy(k)
							if len(ln) != k || len(xy) != k || ln[k-1].GetYear() != dy.GetStartYear()+k-1 || ln[k-1].GetGanZhi() != ref.Pair60(ref.YearPair(dy.GetStartYear()+k-1)) || xy[k-1].GetYear() != dy.GetStartYear()+k-1 {
								w.Violatef("liunian", fmt.Sprintf("%s/by%d/%d/ln%d", tag, n, i, k), "GetLiuNianBy(%d)/GetXiaoYunBy(%d) of great fortune %d: %d/%d entries, last year %d pillar %s", k, k, i, len(ln), len(xy), ln[len(ln)-1].GetYear(), ln[len(ln)-1].GetGanZhi())
							}
						}
						// minor fortunes far out (ages past 120 with sixteen great fortunes): the hour pillar stepped once per year of age
						for _, xy := range dy.GetXiaoYunBy(10) {
							stp := xy.GetAge()
							if !fw {
								stp = -stp
							}
							if xy.GetAge() != xy.GetYear()-st.Y+1 || xy.GetGanZhi() != ref.Pair60(tIdx+stp+6000) {
								w.Violatef("xiaoyun", fmt.Sprintf("%s/by%d/%d/xy%d", tag, n, i, xy.GetIndex()), "GetDaYunBy(%d)[%d] minor fortune of year %d: age %d pillar %s; hour pillar %s stepped %+d gives %s", n, i, xy.GetYear(), xy.GetAge(), xy.GetGanZhi(), ref.Pair60(tIdx), stp, ref.Pair60(tIdx+stp+6000))
							}
						}
					}
				}
				w.Eval(2)
			}
			startYear := ss.GetYear()
			dys := yun.GetDaYun()
			if len(dys) != 10 {
				w.Violatef("dayun", tag+"/len", "GetDaYun() has %d entries", len(dys))
			}
			for i, dy := range dys {
				dk := fmt.Sprintf("%s/dayun%d", tag, i)
				if dy.GetIndex() != i {
					w.Violatef("dayun", dk+"/index", "great fortune %d reports index %d", i, dy.GetIndex())
				}
				if i == 0 {
					if dy.GetStartYear() != st.Y || dy.GetStartAge() != 1 || dy.GetEndYear() != startYear-1 || dy.GetEndAge() != startYear-st.Y || dy.GetGanZhi() != "" {
						w.Violatef("dayun", dk, "pre-fortune period: years %d..%d ages %d..%d pillar %q; birth year %d, fortune starts %d", dy.GetStartYear(), dy.GetEndYear(), dy.GetStartAge(), dy.GetEndAge(), dy.GetGanZhi(), st.Y, startYear)
					}
				} else {
					if dy.GetStartYear() != startYear+(i-1)*10 || dy.GetEndYear() != dy.GetStartYear()+9 || dy.GetStartAge() != dy.GetStartYear()-st.Y+1 || dy.GetEndAge() != dy.GetStartAge()+9 {
						w.Violatef("dayun", dk, "great fortune %d: years %d..%d ages %d..%d; expected a decade from %d aligned with birth year %d", i, dy.GetStartYear(), dy.GetEndYear(), dy.GetStartAge(), dy.GetEndAge(), startYear+(i-1)*10, st.Y)
					}
					if dy.GetStartYear() != dys[i-1].GetEndYear()+1 || dy.GetStartAge() != dys[i-1].GetEndAge()+1 {
						w.Violatef("dayun-chain", dk, "great fortune %d starts %d/age %d, previous ends %d/age %d", i, dy.GetStartYear(), dy.GetStartAge(), dys[i-1].GetEndYear(), dys[i-1].GetEndAge())
					}
					step := i
					if !fw {
						step = -i
					}
					if dy.GetGanZhi() != ref.Pair60(mIdx+step) {
						w.Violatef("dayun-pillar", dk, "great fortune %d pillar %s, month pillar %s stepped %+d gives %s", i, dy.GetGanZhi(), ref.Pair60(mIdx), step, ref.Pair60(mIdx+step))
					}
					if dy.GetXun() != ref.XunNames[ref.XunIndex(mIdx+step+600)] || dy.GetXunKong() != ref.XunKongNames[ref.XunIndex(mIdx+step+600)] {
						w.Violatef("dayun-pillar", dk+"/xun", "great fortune %d xun %s/%s for pillar %s", i, dy.GetXun(), dy.GetXunKong(), dy.GetGanZhi())
					}
				}
				w.Eval(4)
				if (w.Quick || st.Y%10 != 0) && !(i <= 1 || i == st.Mi%8+2) {
					continue // annual/minor fortunes of great fortunes 0, 1 and one rotating index (all ten for births in every tenth year of the thorough tier)
				}
				lns := dy.GetLiuNian()
				wantLen := 10
				if i == 0 {
					wantLen = dy.GetEndYear() - dy.GetStartYear() + 1
					if wantLen < 0 {
						wantLen = 0
					}
				}
				if len(lns) != wantLen {
					w.Violatef("liunian", dk+"/len", "great fortune %d lists %d annual fortunes, expected %d", i, len(lns), wantLen)
				}
				for k, ln := range lns {
					lk := fmt.Sprintf("%s/ln%d", dk, k)
					if ln.GetIndex() != k || ln.GetYear() != dy.GetStartYear()+k || ln.GetAge() != ln.GetYear()-st.Y+1 {
						w.Violatef("liunian", lk, "annual fortune %d of great fortune %d: year %d age %d (great fortune starts %d, birth year %d)", k, i, ln.GetYear(), ln.GetAge(), dy.GetStartYear(), st.Y)
					}
					yp := ref.YearPair(ln.GetYear())
					if ln.GetGanZhi() != ref.Pair60(yp) {
						w.Violatef("liunian-pillar", lk, "annual fortune of year %d carries %s, the year's pillar is %s", ln.GetYear(), ln.GetGanZhi(), ref.Pair60(yp))
					}
					if ln.GetXun() != ref.XunNames[ref.XunIndex(yp)] || ln.GetXunKong() != ref.XunKongNames[ref.XunIndex(yp)] {
						w.Violatef("liunian-pillar", lk+"/xun", "annual fortune of year %d: xun %s/%s", ln.GetYear(), ln.GetXun(), ln.GetXunKong())
					}
					if !(k == 0 || k == len(lns)-1 || k == (i+st.S)%10 || (!w.Quick && st.Y%10 == 0 && st.S%5 == 0)) {
						w.Eval(3)
						continue // monthly fortunes are expanded for the first, last and one rotating annual fortune
					}
					lys := ln.GetLiuYue()
					if len(lys) != 12 {
						w.Violatef("liuyue", lk+"/len", "%d monthly fortunes", len(lys))
					}
					for q, ly := range lys {
						want := ref.Pair60(ref.PairFrom((ref.FirstMonthStem(yp%10)+q)%10, (2+q)%12))
						if ly.GetGanZhi() != want || ly.GetIndex() != q {
							w.Violatef("liuyue", fmt.Sprintf("%s/m%d", lk, q), "monthly fortune %d of year %d (%s) is %s, five-tigers gives %s", q, ln.GetYear(), ref.Pair60(yp), ly.GetGanZhi(), want)
						}
					}
					w.Eval(3 + len(lys))
				}
				xys := dy.GetXiaoYun()
				if len(xys) != wantLen {
					w.Violatef("xiaoyun", dk+"/len", "great fortune %d lists %d minor fortunes, expected %d", i, len(xys), wantLen)
				}
				for k, xy := range xys {
					age := xy.GetAge()
					stp := age
					if !fw {
						stp = -age
					}
					if xy.GetIndex() != k || xy.GetYear() != dy.GetStartYear()+k || age != xy.GetYear()-st.Y+1 || xy.GetGanZhi() != ref.Pair60(tIdx+stp+6000) {
						w.Violatef("xiaoyun", fmt.Sprintf("%s/xy%d", dk, k), "minor fortune %d of great fortune %d: year %d age %d pillar %s; hour pillar %s stepped %+d gives %s", k, i, xy.GetYear(), age, xy.GetGanZhi(), ref.Pair60(tIdx), stp, ref.Pair60(tIdx+stp+6000))
					}
					w.Eval(1)
				}
			}
			w.Distinct(1)
		}
	}
	w.Count(class, 1)
}

func c12Run(w *W, c Case) {
	y := c.A[0]
	w.Class(fmt.Sprintf("century%02d", y/100))
	historyTouch(w, y)
	tbl := calendar.NewSolarFromYmd(y, 6, 15).GetLunar().GetJieQiTable()
	lo := ref.Stamp{Y: y, M: 1, D: 1}.Secs()
	hi := ref.Stamp{Y: y, M: 12, D: 31, H: 23, Mi: 59, S: 59}.Secs()
	add := func(t int64, class string) {
		if t >= lo && t <= hi {
			c12Birth(w, ref.FromSecs(t), class)
		}
	}
	for p := 2; p <= 24; p += 2 {
		if w.Quick && w.Rng.Intn(4) != 0 {
			continue
		}
		if e := tbl[termKeys31[p]]; e != nil {
			j := stampOf(e).Secs()
			d0 := j / 86400 * 86400
			for _, t := range []int64{j - 61, j - 1, j, j + 1, j + 61} {
				add(t, "births-at-jie")
			}
			for _, t := range []int64{d0 + 22*3600 + 3599, d0 + 23*3600, d0 + 86399, d0} {
				add(t, "births-at-23h-on-jie-day")
			}
		}
	}
	if ref.IsLeap(y) {
		add(ref.Stamp{Y: y, M: 2, D: 29, H: 12}.Secs(), "births-on-leap-day")
		add(ref.Stamp{Y: y, M: 2, D: 29, H: 23, Mi: 30}.Secs(), "births-on-leap-day")
	}
	add(hi-1799, "births-at-year-end")
	add(lo, "births-at-year-end")
	n := 2
	if !w.Quick {
		n = 5
	}
	for i := 0; i < n; i++ {
		add(lo+w.Rng.Int63n(hi-lo+1), "seeded-births")
	}
	if y == 1990 || y == 2024 {
		w.Sample("year", map[string]interface{}{"year": y, "xiaohan": fmtStamp(stampOf(tbl["小寒"]))})
	}
}

package main

// C09 - results do not depend on call history or on concurrent callers; no data races; never blocked.
//
// Monitors:
//  1. history digests: the same multiset of call descriptors (few years = few cache keys, interleaved with
//     hostile calls that panic and are recovered) is executed in several seeded orders in single-goroutine
//     child processes; every (call, digest) event is logged at the client boundary; the offline checker
//     demands one digest per descriptor across all orders, equal to the digest obtained right after
//     VerifResetCache() (history-free reference).
//  2. lock invariant at quiescence: after every call returns or is recovered, VerifCacheLockHeld() is false.
//  3. runtime deadlock detector: the history children have a single goroutine, so a mutex left held makes
//     the next call die with "all goroutines are asleep - deadlock!" - a deterministic signal.
//  4. race detector (-race build): (a) 16 goroutines run the descriptors concurrently, every result digest
//     is compared with the sequential reference, cache-year transitions are sampled to show the interleavings
//     reached; (b) one shared object of each type is walked concurrently through all zero-argument accessors.
//     WARNING: DATA RACE blocks are counted from GORACE log files, not from the exit code.

import (
	"container/list"
	"crypto/sha1"
	"encoding/hex"
	"encoding/json"
	"fmt"
	"github.com/6tail/lunar-go/SolarUtil"
	"math"
	"math/rand"
	"os"
	"os/exec"
	"path/filepath"
	"reflect"
	"sort"
	"strconv"
	"strings"
	"sync"
	"syscall"
	"time"

	"github.com/6tail/lunar-go/HolidayUtil"
	"github.com/6tail/lunar-go/ShouXingUtil"
	"github.com/6tail/lunar-go/calendar"
	"lunarmon/ref"
)

func init() {
	register(&Prop{
		ID:   "C09",
		Rule: "a case is one call descriptor (constructor, conversion, navigation, reverse lookup, holiday query, or a hostile call that panics and is recovered) executed under one history (position in one of K seeded orders in a single-goroutine child) or one schedule (one of 16 goroutines in one concurrent round under the race detector); the oracle is digest equality with the history-free reference taken right after VerifResetCache(), plus the lock-free-at-quiescence hook after every call, the runtime deadlock detector, and zero race reports with a lunar-go frame. distinct_nontrivial counts distinct (descriptor, history-or-schedule) pairs judged; distinct cache-year transitions observed under concurrency are reported as interleaving evidence.",
		Assumptions: []string{
			"the sequential specification is a pure function of the arguments, so a history is linearizable iff every call individually returns f(args): an O(n) scan, no general linearizability checker needed",
			"HolidayUtil.Fix is a documented setter and is not part of the histories (C14 covers it); EightChar.SetSect likewise",
			"the race detector reports by happens-before, for code the workload executes concurrently",
		},
		Custom:     c09Custom,
		Exhaustive: func(string) bool { return false },
		MinEvals:   map[string]int64{"quick": 5000, "thorough": 50000},
		Race:       true,
	})
}

type c09Op struct {
	K string   `json:"k"`
	A []int    `json:"a,omitempty"`
	S []string `json:"s,omitempty"`
}

func (o c09Op) String() string { b, _ := json.Marshal(o); return string(b) }

func sha(s string) string {
	h := sha1.Sum([]byte(s))
	return hex.EncodeToString(h[:8])
}

// c09Exec performs one call and returns the digest of its observable result.
func c09Exec(o c09Op) (dig string) {
	defer func() {
		if r := recover(); r != nil {
			dig = "panic:" + sha(fmt.Sprint(r))
		}
	}()
	a := o.A
	switch o.K {
	case "s2l":
		return sha(digest1(calendar.NewSolar(a[0], a[1], a[2], a[3], a[4], a[5]).GetLunar()))
	case "l2s":
		return sha(digest1(calendar.NewLunar(a[0], a[1], a[2], a[3], a[4], a[5])))
	case "ly":
		ly := calendar.NewLunarYear(a[0])
		return sha(fmt.Sprint(tableMonths(ly, false), ly.GetJieQiJulianDays(), ly.GetGanZhi(), ly.GetLeapMonth()))
	case "lm":
		m := calendar.NewLunarMonthFromYm(a[0], a[1])
		return sha(fmt.Sprint(m.Next(a[2]), m.GetGanZhi(), m.GetNineStar()))
	case "snext":
		return sha(calendar.NewSolar(a[0], a[1], a[2], 10, 20, 30).Next(a[3], a[4] == 1).ToYmdHms())
	case "bazi":
		l := calendar.ListSolarFromBaZiBySectAndBaseYear(o.S[0], o.S[1], o.S[2], o.S[3], a[0], a[1])
		return sha(strings.Join(listStrings(l), ","))
	case "hol":
		return sha(strings.Join(listStrings(HolidayUtil.GetHolidaysByYear(a[0])), ",") + fmt.Sprint(HolidayUtil.GetHolidayByYmd(a[0], 10, 1)))
	case "holbad":
		return sha(fmt.Sprint(HolidayUtil.GetHoliday(o.S[0]), listStrings(HolidayUtil.GetHolidays(o.S[0]))))
	case "fixrt":
		// a fix-up that adds a far-future record and a second one that removes it again: the table ends as it began
		// (single-goroutine histories only: it edits package state for a moment)
		before := HolidayUtil.VerifDataInUse()
		day := fmt.Sprintf("%04d%02d%02d", a[0], a[1], a[2])
		HolidayUtil.Fix(nil, day+"81"+day)
		mid := fmt.Sprint(HolidayUtil.GetHoliday(day))
		HolidayUtil.Fix(nil, day+"~000000000")
		if after := HolidayUtil.VerifDataInUse(); after != before {
			return "LEAK: adding and removing " + day + " through Fix left the table changed"
		}
		return sha(mid)
	case "hol2":
		s := calendar.NewSolarFromYmd(a[0], a[1], a[2])
		return sha(fmt.Sprint(HolidayUtil.GetHolidayByYmd(a[0], a[1], a[2]), listStrings(HolidayUtil.GetHolidaysByYm(a[0], a[1])), len(listStrings(HolidayUtil.GetHolidaysByYear(a[0]))),
			listStrings(HolidayUtil.GetHolidaysByTargetYmd(a[0], a[1], a[2])), s.Next(a[3], true).ToYmd(), s.Next(-a[3], true).ToYmd(), s.GetSalaryRate()))
	case "ltime":
		return sha(digest1(calendar.NewLunarTime(a[0], a[1], a[2], a[3], a[4], a[5])))
	case "week":
		w := calendar.NewSolarWeekFromYmd(a[0], a[1], a[2], a[3])
		return sha(fmt.Sprint(w.Next(a[4], true), w.Next(a[4], false), w.GetIndex(), w.GetIndexInYear(), listStrings(w.GetDays())))
	case "yun":
		y := calendar.NewSolar(a[0], a[1], a[2], a[3], a[4], a[5]).GetLunar().GetEightChar().GetYunBySect(a[6], a[7])
		s := fmt.Sprint(y.IsForward(), y.GetStartYear(), y.GetStartMonth(), y.GetStartDay(), y.GetStartHour(), y.GetStartSolar().ToYmdHms())
		for _, d := range y.GetDaYun() {
			s += fmt.Sprint(d.GetStartYear(), d.GetGanZhi(), d.GetLiuNian()[0].GetGanZhi())
		}
		return sha(s)
	case "tao":
		return sha(digest1(calendar.NewTao(a[0], a[1], a[2], a[3], a[4], a[5])))
	case "foto":
		return sha(digest1(calendar.NewFoto(a[0], a[1], a[2], a[3], a[4], a[5])))
	case "jd":
		return sha(calendar.NewSolarFromJulianDay(float64(a[0]) + float64(a[1])/86400).ToYmdHms())
	case "lnext":
		return sha(digest1(calendar.NewSolar(a[0], a[1], a[2], a[3], a[4], a[5]).GetLunar().Next(a[6])))
	case "nsolar":
		return sha(calendar.NewSolar(a[0], a[1], a[2], a[3], a[4], a[5]).ToYmdHms())
	case "sub":
		s1, s2 := calendar.NewSolar(a[0], a[1], a[2], a[3], a[4], a[5]), calendar.NewSolar(a[6], a[7], a[8], a[5], a[4], a[3])
		return sha(fmt.Sprint(s1.Subtract(s2), s2.Subtract(s1), s1.SubtractMinute(s2), s1.IsBefore(s2), s1.IsAfter(s2), SolarUtil.GetDaysBetween(a[0], a[1], a[2], a[6], a[7], a[8]),
			SolarUtil.GetDaysInYear(a[0], a[1], a[2]), SolarUtil.GetWeek(a[6], a[7], a[8]), SolarUtil.GetDaysOfYear(a[6]), SolarUtil.GetJulianDay(a[0], a[1], a[2], a[3], a[4], a[5])))
	case "solar":
		return sha(digest1(calendar.NewSolar(a[0], a[1], a[2], a[3], a[4], a[5])))
	case "scribble":
		// a caller appends to / edits the lists it was handed (its own copies, as far as it can tell) and renders the
		// day; what a fresh object of the same day reports afterwards must not have moved
		mk := func() string {
			s := calendar.NewSolar(a[0], a[1], a[2], a[3], a[4], a[5])
			l := s.GetLunar()
			return fmt.Sprint(listStrings(s.GetFestivals()), listStrings(s.GetOtherFestivals()), listStrings(l.GetFestivals()), listStrings(l.GetOtherFestivals()),
				listStrings(l.GetDayYi()), listStrings(l.GetDayJi()), listStrings(l.GetTimeYi()), listStrings(l.GetTimeJi()), listStrings(l.GetDayJiShen()), listStrings(l.GetDayXiongSha()),
				listStrings(l.GetFoto().GetFestivals()), listStrings(l.GetFoto().GetOtherFestivals()), l.GetTao().GetFestivals().Len(), l.GetPengZuGan(), listStrings(l.GetJieQiList()))
		}
		before := mk()
		s := calendar.NewSolar(a[0], a[1], a[2], a[3], a[4], a[5])
		l := s.GetLunar()
		_ = s.ToFullString() + l.ToFullString() + l.GetFoto().ToFullString() + l.GetTao().ToFullString()
		for _, ls := range []*list.List{s.GetFestivals(), s.GetOtherFestivals(), l.GetFestivals(), l.GetOtherFestivals(), l.GetDayYi(), l.GetDayJi(), l.GetTimeYi(), l.GetTimeJi(),
			l.GetDayJiShen(), l.GetDayXiongSha(), l.GetFoto().GetFestivals(), l.GetFoto().GetOtherFestivals(), l.GetJieQiList()} {
			ls.PushBack("(caller's note)")
			if ls.Len() > 1 {
				ls.Remove(ls.Front())
			}
		}
		// the term table of this Lunar and the months-of-the-year list are the caller's to edit as well: another object of
		// the same date (and the year object handed out next) must not notice
		yearBefore := fmt.Sprint(tableMonths(calendar.NewLunarYear(l.GetYear()), true), calendar.NewLunarYear(l.GetYear()).GetLeapMonth(), calendar.NewLunarYear(l.GetYear()).GetDayCount())
		termsBefore := c09Terms(calendar.NewSolar(a[0], a[1], a[2], a[3], a[4], a[5]).GetLunar())
		tb := l.GetJieQiTable()
		for k, v := range tb {
			if v != nil && (len(k)+a[2])%3 == 0 {
				tb[k] = v.NextHour(-8)
			}
		}
		delete(tb, "清明")
		miy := calendar.NewLunarYear(l.GetYear()).GetMonthsInYear()
		if miy.Len() > 2 {
			miy.Remove(miy.Front())
			miy.PushBack(miy.Front().Value)
		}
		// the chart's ten-god lists likewise
		chartBefore := digest1(calendar.NewSolar(a[0], a[1], a[2], a[3], a[4], a[5]).GetLunar().GetEightChar())
		ec := l.GetEightChar()
		for _, ls := range []*list.List{ec.GetYearShiShenZhi(), ec.GetMonthShiShenZhi(), ec.GetDayShiShenZhi(), ec.GetTimeShiShenZhi()} {
			ls.PushBack("(caller's note)")
			ls.Remove(ls.Front())
		}
		if chartAfter := digest1(calendar.NewSolar(a[0], a[1], a[2], a[3], a[4], a[5]).GetLunar().GetEightChar()); chartAfter != chartBefore {
			return "LEAK: after a caller edited the ten-god lists of one chart, a fresh chart of the same moment differs: " + diffDigests(chartBefore, chartAfter)
		}
		if after := mk(); after != before {
			return "LEAK: after a caller edited the lists it was handed for this date, a fresh object of the same date reports " + after + ", before " + before
		}
		if termsAfter := c09Terms(calendar.NewSolar(a[0], a[1], a[2], a[3], a[4], a[5]).GetLunar()); termsAfter != termsBefore {
			return "LEAK: after a caller edited the term table it was handed, a fresh Lunar of the same date reports other terms: " + diffDigests(termsBefore, termsAfter)
		}
		if yearAfter := fmt.Sprint(tableMonths(calendar.NewLunarYear(l.GetYear()), true), calendar.NewLunarYear(l.GetYear()).GetLeapMonth(), calendar.NewLunarYear(l.GetYear()).GetDayCount()); yearAfter != yearBefore {
			return "LEAK: after a caller edited the months-of-the-year list it was handed, the year reports " + yearAfter + ", before " + yearBefore
		}
		return "no-leak"
	case "setters":
		// objects handed out by accessors are modified through their public setters; later queries (on fresh objects)
		// must be unaffected. The digest is a constant unless something leaked, so it is also history-independent.
		mk := func() *calendar.Lunar { return calendar.NewSolar(a[0], a[1], a[2], a[3], a[4], a[5]).GetLunar() }
		before := digest1(mk()) + digest1(mk().GetEightChar())
		hBefore := fmt.Sprint(HolidayUtil.GetHolidayByYmd(a[0], a[1], a[2]))
		l := mk()
		if sj := l.GetShuJiu(); sj != nil {
			sj.SetName("x")
			sj.SetIndex(77)
		}
		if fu := l.GetFu(); fu != nil {
			fu.SetName("x")
			fu.SetIndex(77)
		}
		for _, jq := range []*calendar.JieQi{l.GetPrevJieQi(), l.GetNextJieQi(), l.GetPrevJie(), l.GetNextQi(), l.GetCurrentJieQi()} {
			if jq != nil {
				jq.SetName("大雪")
				jq.SetSolar(calendar.NewSolarFromYmd(2000, 1, 1))
			}
		}
		l.GetEightChar().SetSect(1)
		// a round of read-only questions to the Lunar (the deprecated aliases included) leaves the chart as configured
		digest1(l)
		if l.GetEightChar().GetSect() != 1 {
			return "LEAK: after SetSect(1) on the chart of a Lunar, calling the Lunar's zero-argument accessors changed the chart's sect back to " + fmt.Sprint(l.GetEightChar().GetSect())
		}
		// one Solar converted twice: the second Lunar is a new object with its own (default) chart
		sol := calendar.NewSolar(a[0], a[1], a[2], 23, a[4], a[5])
		chart0 := digest1(sol.GetLunar().GetEightChar())
		sol.GetLunar().GetEightChar().SetSect(1)
		if now := digest1(sol.GetLunar().GetEightChar()); now != chart0 {
			return "LEAK: SetSect on the chart of solar.GetLunar() changed the chart a later solar.GetLunar() of the same Solar hands out: " + diffDigests(chart0, now)
		}
		if ts := l.GetJieQiTable()["立春"]; ts != nil {
			c0 := digest1(ts.GetLunar().GetEightChar())
			ts.GetLunar().GetEightChar().SetSect(1)
			if now := digest1(ts.GetLunar().GetEightChar()); now != c0 {
				return "LEAK: SetSect on the chart of a term-table Solar's Lunar changed what a later GetLunar() of that Solar hands out: " + diffDigests(c0, now)
			}
		}
		// objects reached through stepping are new objects: configuring them must not reconfigure the one stepped from
		l0 := mk()
		own := digest1(l0.GetEightChar())
		for _, n := range []int{0, 1, -1} {
			l0.Next(n).GetEightChar().SetSect(1)
			l0.Next(n).Next(-n).GetEightChar().SetSect(1)
		}
		if now := digest1(l0.GetEightChar()); now != own {
			return "LEAK: SetSect on the chart of a Lunar returned by Next(n) changed the chart of the Lunar it was stepped from: " + diffDigests(own, now)
		}
		if h := HolidayUtil.GetHolidayByYmd(a[0], a[1], a[2]); h != nil {
			h.SetName("x")
			h.SetWork(!h.IsWork())
			h.SetTarget("2000-01-01")
			h.SetDay("2000-01-01")
		}
		after := digest1(mk()) + digest1(mk().GetEightChar())
		if after != before {
			return "LEAK: after setters were called on objects returned for this date, a fresh Lunar of the same date differs: " + diffDigests(before, after)
		}
		if hAfter := fmt.Sprint(HolidayUtil.GetHolidayByYmd(a[0], a[1], a[2])); hAfter != hBefore {
			return "LEAK: holiday record of the date changed after the returned object was modified: " + hBefore + " -> " + hAfter
		}
		return "no-leak"
	case "dtt":
		return fmt.Sprintf("%.12g", ShouXingUtil.DtT(float64(a[0])/1000))
	case "astro":
		x := float64(a[0]) / 1000
		return fmt.Sprintf("%.9f/%.9f/%.9f/%.9f", ShouXingUtil.CalcQi(x), ShouXingUtil.CalcShuo(x), ShouXingUtil.QiAccurate2(x), ShouXingUtil.SaLonT(x/36525)) +
			fmt.Sprintf("/%.9f/%.9f/%.9f", ShouXingUtil.QiAccurate(math.Floor(x/15.2184)*math.Pi/12), ShouXingUtil.QiAccurate(x/365.2422*2*math.Pi), ShouXingUtil.QiAccurate((math.Floor(x/15.2184)+1.0/3)*math.Pi/12))
	case "obj":
		// not hashed: the parent names the first differing call
		return mapDigest(c09ObjExec(a, c09Salt))
	}
	return "unknown-op"
}

// c09Terms renders what a Lunar reports about solar terms (table, neighbours, day classes that hang on the day's term).
func c09Terms(l *calendar.Lunar) string {
	var parts []string
	tb := l.GetJieQiTable()
	for _, k := range termKeys31 {
		if s := tb[k]; s != nil {
			parts = append(parts, k+"="+s.ToYmdHms())
		} else {
			parts = append(parts, k+"=nil")
		}
	}
	parts = append(parts, "jieqi="+l.GetJieQi(), fmt.Sprint("prev=", l.GetPrevJieQi(), " next=", l.GetNextJieQi()), fmt.Sprint("bajie=", l.GetTao().IsDayBaJie()), "hou="+l.GetHou())
	return strings.Join(parts, ";")
}

// c09Salt selects the order in which an "obj" descriptor issues its calls on one object
// (-1: every call on a fresh object = history-free reference).
var c09Salt int64 = -1

type objCall struct {
	name string
	f    func(l *calendar.Lunar) string
}

// objAux: auxiliary objects shared by all calls issued on one Lunar (one set per Lunar, created on first use
// by the harness - never by the library - so that the calls really hit the SAME SolarMonth / SolarWeek / ...).
type objAux struct {
	month *calendar.SolarMonth
	week  *calendar.SolarWeek
	lyear *calendar.LunarYear
	lmon  *calendar.LunarMonth
	ltime *calendar.LunarTime
	yun   *calendar.Yun
}

var objAuxMu sync.Mutex
var objAuxOf = map[*calendar.Lunar]*objAux{}

func auxOf(l *calendar.Lunar) *objAux {
	objAuxMu.Lock()
	defer objAuxMu.Unlock()
	if a, ok := objAuxOf[l]; ok {
		return a
	}
	if len(objAuxOf) > 2000 {
		objAuxOf = map[*calendar.Lunar]*objAux{}
	}
	s := l.GetSolar()
	other := calendar.NewSolar(s.GetYear(), s.GetMonth(), s.GetDay(), s.GetHour(), s.GetMinute(), s.GetSecond()).GetLunar()
	a := &objAux{
		month: calendar.NewSolarMonthFromYm(s.GetYear(), s.GetMonth()),
		week:  calendar.NewSolarWeekFromYmd(s.GetYear(), s.GetMonth(), s.GetDay(), s.GetDay()%7),
		lyear: calendar.NewLunarYear(l.GetYear()),
		lmon:  calendar.NewLunarMonthFromYm(l.GetYear(), l.GetMonth()),
		ltime: calendar.NewLunarTime(l.GetYear(), l.GetMonth(), l.GetDay(), s.GetHour(), s.GetMinute(), s.GetSecond()),
		yun:   calendar.NewYun(other.GetEightChar(), s.GetDay()%2, 1+s.GetMinute()%2),
	}
	objAuxOf[l] = a
	return a
}

func weeksStr(l *list.List) string {
	s := ""
	for e := l.Front(); e != nil; e = e.Next() {
		wk := e.Value.(*calendar.SolarWeek)
		s += wk.GetFirstDay().ToYmd() + fmt.Sprint(wk.GetIndex()) + ","
	}
	return s
}

func yunStr(y *calendar.Yun) string {
	s := fmt.Sprint(y.IsForward(), y.GetStartYear(), y.GetStartMonth(), y.GetStartDay(), y.GetStartHour(), y.GetStartSolar().ToYmdHms())
	for _, d := range y.GetDaYun() {
		s += fmt.Sprint(d.GetStartYear(), d.GetGanZhi())
	}
	return s
}

// c09ObjCalls: parameterised and zero-argument accessor calls issued on ONE object in varying orders.
var c09ObjCalls = func() []objCall {
	cs := []objCall{
		{"accessors(Lunar)", func(l *calendar.Lunar) string { return digest1(l) }},
		{"accessors(EightChar)", func(l *calendar.Lunar) string { return digest1(l.GetEightChar()) }},
		{"accessors(Solar)", func(l *calendar.Lunar) string { return digest1(l.GetSolar()) }},
		{"accessors(Time)", func(l *calendar.Lunar) string { return digest1(l.GetTime()) }},
		{"accessors(Foto)", func(l *calendar.Lunar) string { return digest1(l.GetFoto()) }},
		{"accessors(Tao)", func(l *calendar.Lunar) string { return digest1(l.GetTao()) }},
		{"GetJieQiTable", func(l *calendar.Lunar) string { return render(reflect.ValueOf(l.GetJieQiTable()), 0, nil) }},
		{"GetJieQiList", func(l *calendar.Lunar) string { return render(reflect.ValueOf(l.GetJieQiList()), 0, nil) }},
		{"Next(0)", func(l *calendar.Lunar) string { return digest1(l.Next(0)) }},
		{"Next(1)", func(l *calendar.Lunar) string { return l.Next(1).String() }},
		{"Next(-40)", func(l *calendar.Lunar) string { return l.Next(-40).String() }},
		{"GetNextJieByWholeDay(true)", func(l *calendar.Lunar) string {
			return fmt.Sprint(l.GetNextJieByWholeDay(true), l.GetNextJieByWholeDay(true).GetSolar().ToYmdHms())
		}},
		{"GetPrevQiByWholeDay(false)", func(l *calendar.Lunar) string {
			return fmt.Sprint(l.GetPrevQiByWholeDay(false), l.GetPrevQiByWholeDay(false).GetSolar().ToYmdHms())
		}},
		{"Solar.Next(5,true)", func(l *calendar.Lunar) string { return l.GetSolar().Next(5, true).ToYmdHms() }},
	}
	// parameterised accessors of the auxiliary objects (one shared SolarMonth, SolarWeek, LunarYear, LunarMonth, LunarTime, Yun)
	for s := 0; s < 7; s++ {
		s := s
		cs = append(cs, objCall{fmt.Sprintf("SolarMonth.GetWeeks(%d)", s), func(l *calendar.Lunar) string { return weeksStr(auxOf(l).month.GetWeeks(s)) }})
	}
	for _, n := range []int{1, -1, 5, -7} {
		n := n
		cs = append(cs,
			objCall{fmt.Sprintf("SolarWeek.Next(%d,true)", n), func(l *calendar.Lunar) string { return auxOf(l).week.Next(n, true).String() }},
			objCall{fmt.Sprintf("SolarWeek.Next(%d,false)", n), func(l *calendar.Lunar) string { return auxOf(l).week.Next(n, false).String() }},
			objCall{fmt.Sprintf("SolarMonth.Next(%d)", n), func(l *calendar.Lunar) string { return auxOf(l).month.Next(n).String() }},
			objCall{fmt.Sprintf("LunarMonth.Next(%d)", n), func(l *calendar.Lunar) string { return fmt.Sprint(auxOf(l).lmon.Next(n)) }},
			objCall{fmt.Sprintf("LunarYear.Next(%d)", n), func(l *calendar.Lunar) string {
				return fmt.Sprint(auxOf(l).lyear.Next(n).GetGanZhi(), auxOf(l).lyear.Next(n).GetDayCount())
			}})
	}
	cs = append(cs,
		objCall{"accessors(SolarWeek)", func(l *calendar.Lunar) string { return digest1(auxOf(l).week) }},
		objCall{"accessors(LunarYear)", func(l *calendar.Lunar) string { return digest1(auxOf(l).lyear) }},
		objCall{"accessors(LunarMonth)", func(l *calendar.Lunar) string { return digest1(auxOf(l).lmon) }},
		objCall{"accessors(LunarTime)", func(l *calendar.Lunar) string { return digest1(auxOf(l).ltime) }},
		objCall{"accessors(Yun)", func(l *calendar.Lunar) string { return digest1(auxOf(l).yun) }},
		objCall{"LunarYear.GetMonth(1)", func(l *calendar.Lunar) string { return fmt.Sprint(auxOf(l).lyear.GetMonth(1)) }},
		objCall{"LunarYear.GetMonth(-leap)", func(l *calendar.Lunar) string {
			return fmt.Sprint(auxOf(l).lyear.GetMonth(-auxOf(l).lyear.GetLeapMonth()))
		}},
		objCall{"LunarYear.GetMonthsInYear", func(l *calendar.Lunar) string { return fmt.Sprint(listStrings(auxOf(l).lyear.GetMonthsInYear())) }})
	for k := 1; k <= 2; k++ {
		k := k
		cs = append(cs,
			objCall{fmt.Sprintf("LunarYear.GetPositionFuBySect(%d)", k), func(l *calendar.Lunar) string { return auxOf(l).lyear.GetPositionFuBySect(k) }},
			objCall{fmt.Sprintf("LunarMonth.GetPositionFuBySect(%d)", k), func(l *calendar.Lunar) string { return auxOf(l).lmon.GetPositionFuBySect(k) }},
			objCall{fmt.Sprintf("LunarTime.GetPositionFuBySect(%d)", k), func(l *calendar.Lunar) string { return auxOf(l).ltime.GetPositionFuBySect(k) }})
	}
	for _, n := range []int{1, 4, 12} {
		n := n
		cs = append(cs, objCall{fmt.Sprintf("Yun.GetDaYunBy(%d)+LiuNianBy", n), func(l *calendar.Lunar) string {
			s := ""
			for _, d := range auxOf(l).yun.GetDaYunBy(n) {
				s += d.GetGanZhi() + fmt.Sprint(d.GetStartYear(), len(d.GetLiuNianBy(n)), len(d.GetXiaoYunBy(n+1)))
			}
			return s
		}})
	}
	for g := 0; g <= 1; g++ {
		for sect := 1; sect <= 2; sect++ {
			g, sect := g, sect
			cs = append(cs, objCall{fmt.Sprintf("GetYunBySect(%d,%d)", g, sect), func(l *calendar.Lunar) string { return yunStr(l.GetEightChar().GetYunBySect(g, sect)) }})
		}
		g := g
		cs = append(cs, objCall{fmt.Sprintf("GetYun(%d)", g), func(l *calendar.Lunar) string { return yunStr(l.GetEightChar().GetYun(g)) }})
	}
	for k := 1; k <= 3; k++ {
		k := k
		cs = append(cs,
			objCall{fmt.Sprintf("GetYearNineStarBySect(%d)", k), func(l *calendar.Lunar) string { return l.GetYearNineStarBySect(k).String() }},
			objCall{fmt.Sprintf("GetMonthNineStarBySect(%d)", k), func(l *calendar.Lunar) string { return l.GetMonthNineStarBySect(k).String() }},
			objCall{fmt.Sprintf("GetYearPositionTaiSuiBySect(%d)", k), func(l *calendar.Lunar) string { return l.GetYearPositionTaiSuiBySect(k) }},
			objCall{fmt.Sprintf("GetMonthPositionTaiSuiBySect(%d)", k), func(l *calendar.Lunar) string { return l.GetMonthPositionTaiSuiBySect(k) }},
			objCall{fmt.Sprintf("GetDayPositionTaiSuiBySect(%d)", k), func(l *calendar.Lunar) string { return l.GetDayPositionTaiSuiBySect(k) }})
	}
	for k := 1; k <= 2; k++ {
		k := k
		cs = append(cs,
			objCall{fmt.Sprintf("GetDayYiBySect(%d)", k), func(l *calendar.Lunar) string { return fmt.Sprint(listStrings(l.GetDayYiBySect(k))) }},
			objCall{fmt.Sprintf("GetDayJiBySect(%d)", k), func(l *calendar.Lunar) string { return fmt.Sprint(listStrings(l.GetDayJiBySect(k))) }},
			objCall{fmt.Sprintf("GetDayPositionFuBySect(%d)", k), func(l *calendar.Lunar) string { return l.GetDayPositionFuBySect(k) }},
			objCall{fmt.Sprintf("GetTimePositionFuBySect(%d)", k), func(l *calendar.Lunar) string { return l.GetTimePositionFuBySect(k) }},
			objCall{fmt.Sprintf("Time.GetPositionFuBySect(%d)", k), func(l *calendar.Lunar) string { return l.GetTime().GetPositionFuBySect(k) }})
	}
	return cs
}()

// c09ObjExec issues the object calls on one Lunar in the order selected by salt and returns name -> digest.
func c09ObjExec(a []int, salt int64) map[string]string {
	out := map[string]string{}
	mk := func() *calendar.Lunar { return calendar.NewSolar(a[0], a[1], a[2], a[3], a[4], a[5]).GetLunar() }
	one := func(l *calendar.Lunar, c objCall) {
		defer func() {
			if r := recover(); r != nil {
				out[c.name] = "panic:" + sha(fmt.Sprint(r))
			}
		}()
		out[c.name] = sha(c.f(l))
	}
	if salt < 0 {
		for _, c := range c09ObjCalls {
			one(mk(), c)
		}
		return out
	}
	l := mk()
	perm := rand.New(rand.NewSource(salt)).Perm(len(c09ObjCalls))
	for _, i := range perm {
		one(l, c09ObjCalls[i])
	}
	return out
}

func mapDigest(m map[string]string) string {
	ks := make([]string, 0, len(m))
	for k := range m {
		ks = append(ks, k)
	}
	sort.Strings(ks)
	s := ""
	for _, k := range ks {
		s += k + "=" + m[k] + ";"
	}
	return s
}

// c09Day: a seeded day of year y, biased towards the first days of January and the last of December (several
// accessors take rarely used branches there).
func c09Day(rng *rand.Rand, y int) (int, int, int) {
	switch rng.Intn(10) {
	case 0, 1:
		return y, 1, 1 + rng.Intn(10)
	case 2:
		return y, 12, 20 + rng.Intn(12)
	}
	return randDayIn(rng, y, y)
}

// (1978..1980 mirror 2019..2021 about the epoch of the lunation count, 2000-01-06: |n| collides)
var c09Years = []int{2019, 2020, 2021, 2033, 2034, 1582, 15, 16, 9998, 1900, 1978, 1979, 1980}

// c09Ops builds the seeded multiset of descriptors.
func c09Ops(seed int64, n int) (ops []c09Op, hostile []c09Op) {
	rng := rand.New(rand.NewSource(seed*7919 + 11))
	day := func(y int) (int, int, int) { return c09Day(rng, y) }
	for len(ops) < n {
		y := c09Years[rng.Intn(len(c09Years))]
		_, m, d := day(y)
		h, mi, s := rng.Intn(24), rng.Intn(60), rng.Intn(60)
		switch rng.Intn(22) {
		case 20, 21:
			y2 := c09Years[rng.Intn(len(c09Years))] + rng.Intn(5) - 2
			if y2 < 1 {
				y2 = 1
			}
			_, m2, d2 := day(y2)
			ops = append(ops, c09Op{K: "sub", A: []int{y, m, d, h, mi, s, y2, m2, d2}})
		case 18:
			ops = append(ops, c09Op{K: "solar", A: []int{y, m, d, h, mi, s}})
		case 19:
			dd := [][2]int{{12, 25}, {1, 1}, {2, 14}, {5, 10}, {8, 10}, {10, 1}, {5, 1}, {11, 26}}[rng.Intn(8)]
			ops = append(ops, c09Op{K: "scribble", A: []int{[]int{y, 2001 + rng.Intn(24)}[rng.Intn(2)], dd[0], dd[1] + rng.Intn(3), h, mi, s}})
		case 17:
			// winter and summer dates so that nine-nines / dog-day objects exist, holiday dates now and then
			dd := [][2]int{{12, 25}, {1, 5}, {2, 1}, {7, 20}, {8, 10}, {10, 1}, {5, 1}}[rng.Intn(7)]
			ops = append(ops, c09Op{K: "setters", A: []int{2001 + rng.Intn(24), dd[0], dd[1] + rng.Intn(3), h, mi, s}})
		case 15:
			// delta-T at (and near) the knots of the library's table: days from J2000, in thousandths
			kn := ShouXingUtil.DT_AT[rng.Intn(len(ShouXingUtil.DT_AT)/5)*5]
			off := []float64{0, 0, 0, -0.001, 0.001, 3.7}[rng.Intn(6)]
			ops = append(ops, c09Op{K: "dtt", A: []int{int(math.Round(((kn-2000)*365.2425 + off) * 1000))}})
		case 16:
			if rng.Intn(2) == 0 {
				ops = append(ops, c09Op{K: "astro", A: []int{(rng.Intn(7304000) - 730000*1) * 1000 / 10}})
			} else {
				// days from J2000 of a moment inside one of the years the other descriptors use (an exported solver asked
				// directly for arguments next to the ones the calendar itself will ask for)
				ops = append(ops, c09Op{K: "astro", A: []int{(ref.JDN(y, m, d)-2451545)*1000 + rng.Intn(1000)}})
			}
		case 14:
			ops = append(ops, c09Op{K: "obj", A: []int{y, m, d, h, mi, s}})
		case 0, 1, 2:
			ops = append(ops, c09Op{K: "s2l", A: []int{y, m, d, h, mi, s}})
		case 3:
			l := calendar.NewSolarFromYmd(y, m, d).GetLunar()
			ops = append(ops, c09Op{K: "l2s", A: []int{l.GetYear(), l.GetMonth(), l.GetDay(), h, mi, s}})
		case 4:
			ops = append(ops, c09Op{K: "ly", A: []int{y + rng.Intn(3) - 1}})
		case 5:
			lm := 1 + rng.Intn(12)
			if lp := calendar.NewLunarYear(y).GetLeapMonth(); lp > 0 && rng.Intn(3) == 0 {
				lm = -lp
			}
			ops = append(ops, c09Op{K: "lm", A: []int{y, lm, rng.Intn(61) - 30}})
		case 6:
			ops = append(ops, c09Op{K: "snext", A: []int{y, m, d, rng.Intn(801) - 400, rng.Intn(2)}})
		case 7:
			yy := 1950 + rng.Intn(70)
			_, mm, dd := day(yy)
			ec := calendar.NewSolar(yy, mm, dd, h, mi, s).GetLunar().GetEightChar()
			sect := 1 + rng.Intn(2)
			ec.SetSect(sect)
			ops = append(ops, c09Op{K: "bazi", A: []int{sect, 1900}, S: []string{ec.GetYear(), ec.GetMonth(), ec.GetDay(), ec.GetTime()}})
		case 8:
			if rng.Intn(3) == 0 {
				ops = append(ops, c09Op{K: "hol", A: []int{2001 + rng.Intn(25)}})
			} else {
				// a day in or next to a run of recorded days (look-ups then move backwards as well as forwards through the table)
				hy := 2002 + rng.Intn(24)
				recs := listStrings(HolidayUtil.GetHolidaysByYear(hy))
				hm, hd := 1+rng.Intn(12), 1+rng.Intn(28)
				if len(recs) > 0 {
					fmt.Sscanf(recs[rng.Intn(len(recs))], "%d-%d-%d", &hy, &hm, &hd)
					jj := ref.JDN(hy, hm, hd) + rng.Intn(5) - 2
					hy, hm, hd = ref.FromJDN(jj)
				}
				ops = append(ops, c09Op{K: "hol2", A: []int{hy, hm, hd, 1 + rng.Intn(6)}})
			}
		case 9:
			l := calendar.NewSolarFromYmd(y, m, d).GetLunar()
			ops = append(ops, c09Op{K: "ltime", A: []int{l.GetYear(), l.GetMonth(), l.GetDay(), h, mi, s}})
		case 10:
			ops = append(ops, c09Op{K: "week", A: []int{y, m, d, rng.Intn(7), rng.Intn(21) - 10}})
		case 11:
			ops = append(ops, c09Op{K: "yun", A: []int{y, m, d, h, mi, s, rng.Intn(2), 1 + rng.Intn(2)}})
		case 12:
			l := calendar.NewSolarFromYmd(y, m, d).GetLunar()
			if rng.Intn(2) == 0 {
				ops = append(ops, c09Op{K: "tao", A: []int{l.GetYear() + 2697, l.GetMonth(), l.GetDay(), h, mi, s}})
			} else {
				ops = append(ops, c09Op{K: "foto", A: []int{l.GetYear() + 544, l.GetMonth(), l.GetDay(), h, mi, s}})
			}
		case 13:
			ops = append(ops, c09Op{K: "lnext", A: []int{y, m, d, h, mi, s, rng.Intn(801) - 400}})
		}
	}
	// lunar year 0 and the first weeks of year 1 (valid inputs; a sentinel that collides with year 0 shows here)
	ops = append(ops, c09Op{K: "ly", A: []int{0}}, c09Op{K: "s2l", A: []int{1, 1, 5, 12, 0, 0}}, c09Op{K: "l2s", A: []int{0, 12, 1, 0, 0, 0}}, c09Op{K: "foto", A: []int{544, 11, 20, 1, 2, 3}}, c09Op{K: "lm", A: []int{0, 11, 3}})
	hostile = []c09Op{
		{K: "l2s", A: []int{2020, 13, 1, 0, 0, 0}}, {K: "l2s", A: []int{2020, 2, 31, 0, 0, 0}}, {K: "l2s", A: []int{2020, -5, 1, 0, 0, 0}},
		{K: "nsolar", A: []int{1582, 10, 10, 0, 0, 0}}, {K: "nsolar", A: []int{2020, 1, 1, 24, 0, 0}}, {K: "s2l", A: []int{2021, 2, 29, 0, 0, 0}},
		{K: "ly", A: []int{0}}, {K: "ly", A: []int{-1}}, {K: "ly", A: []int{10000}}, {K: "ly", A: []int{1 << 31}}, {K: "ly", A: []int{-(1 << 31)}},
		{K: "ly", A: []int{1 << 62}}, {K: "ly", A: []int{-(1 << 62)}}, {K: "l2s", A: []int{1 << 31, 1, 1, 0, 0, 0}}, {K: "ltime", A: []int{2020, 1, 1, 25, 0, 0}},
		{K: "tao", A: []int{1 << 40, 1, 1, 0, 0, 0}}, {K: "jd", A: []int{1 << 40, 0}}, {K: "lm", A: []int{1 << 33, 1, 1}},
		{K: "holbad", S: []string{""}}, {K: "holbad", S: []string{"-"}}, {K: "holbad", S: []string{"2020"}}, {K: "holbad", S: []string{"20201"}},
		{K: "fixrt", A: []int{2031, 3, 9}}, {K: "fixrt", A: []int{2003, 7, 19}},
	}
	return
}

// ---------------------------------------------------------------- children

type c09Event struct {
	I int    `json:"i"` // op index
	D string `json:"d"`
}

type c09ChildOut struct {
	Done        bool           `json:"done"`
	Events      []c09Event     `json:"events"`
	LockHeld    []int          `json:"lock_held"` // op indexes after which the lock was held
	Transitions map[string]int `json:"transitions"`
	Shared      []string       `json:"shared"` // shared-object mismatches
	SharedCalls int            `json:"shared_calls"`
	Goroutines  int            `json:"goroutines"`
}

func c09LoadOps(path string) (all []c09Op) {
	b, _ := os.ReadFile(path)
	json.Unmarshal(b, &all)
	return
}

func c09MapCur(out string) []byte {
	f, err := os.OpenFile(out+".cur", os.O_RDWR|os.O_CREATE|os.O_TRUNC, 0644)
	if err != nil {
		return nil
	}
	defer f.Close()
	f.Truncate(curSize)
	m, err := syscall.Mmap(int(f.Fd()), 0, curSize, syscall.PROT_READ|syscall.PROT_WRITE, syscall.MAP_SHARED)
	if err != nil {
		return nil
	}
	return m
}

func setCur(m []byte, s string) {
	if m == nil {
		return
	}
	n := copy(m[:curSize-1], s)
	m[n] = 0
}

// c09ChildMain: lunarmon c09child <mode> <opsfile> <seed> <idx> <out>
func c09ChildMain(args []string) int {
	mode, opsFile, out := args[0], args[1], args[4]
	seed, _ := strconv.ParseInt(args[2], 10, 64)
	idx, _ := strconv.Atoi(args[3])
	ops := c09LoadOps(opsFile)
	res := c09ChildOut{Transitions: map[string]int{}}
	cur := c09MapCur(out)
	switch mode {
	case "ref":
		// history-free reference: empty cache before every call
		for i, o := range ops {
			setCur(cur, o.String())
			calendar.VerifResetCache()
			res.Events = append(res.Events, c09Event{i, c09Exec(o)})
			if calendar.VerifCacheLockHeld() {
				res.LockHeld = append(res.LockHeld, i)
			}
		}
	case "first":
		// the op with index idx is the very first library call of this process (no cache reset): initial state
		setCur(cur, ops[idx].String())
		res.Events = append(res.Events, c09Event{idx, c09Exec(ops[idx])})
		if calendar.VerifCacheLockHeld() {
			res.LockHeld = append(res.LockHeld, idx)
		}
	case "hist":
		// one seeded order of the multiset (each op twice), single goroutine
		order := make([]int, 0, 2*len(ops))
		for i := range ops {
			order = append(order, i, i)
		}
		rng := rand.New(rand.NewSource(seed*1000003 + int64(idx)))
		rng.Shuffle(len(order), func(a, b int) { order[a], order[b] = order[b], order[a] })
		for n, i := range order {
			c09Salt = seed*977 + int64(idx)*7919 + int64(n)
			setCur(cur, ops[i].String())
			dg := c09Exec(ops[i])
			res.Events = append(res.Events, c09Event{i, dg})
			if calendar.VerifCacheLockHeld() {
				res.LockHeld = append(res.LockHeld, i)
			}
			// the same request again straight away: always after a recovered panic (whatever the failed call left
			// behind is then the state the retry meets), now and then otherwise
			if strings.HasPrefix(dg, "panic:") || rng.Intn(8) == 0 {
				res.Events = append(res.Events, c09Event{i, c09Exec(ops[i])})
				if calendar.VerifCacheLockHeld() {
					res.LockHeld = append(res.LockHeld, i)
				}
			}
		}
	case "conc":
		// G goroutines, each running its own seeded order of all ops once
		const G = 16
		res.Goroutines = G
		c09Salt = seed*977 + int64(idx)*7919 + 5 // read-only while the goroutines run
		evs := make([][]c09Event, G)
		trans := make([]map[string]int, G)
		var wg sync.WaitGroup
		start := make(chan struct{})
		for g := 0; g < G; g++ {
			wg.Add(1)
			go func(g int) {
				defer wg.Done()
				order := rand.New(rand.NewSource(seed*1000003 + int64(idx)*131 + int64(g))).Perm(len(ops))
				if lim := concLimit(); lim < len(order) {
					order = order[:lim]
				}
				trans[g] = map[string]int{}
				last := -1
				<-start
				for _, i := range order {
					if ops[i].K == "fixrt" {
						continue // edits package state for a moment: single-goroutine histories only
					}
					evs[g] = append(evs[g], c09Event{i, c09Exec(ops[i])})
					if y, ok := calendar.VerifCacheYear(); ok {
						if last != -1 && last != y {
							trans[g][fmt.Sprintf("%d>%d", last, y)]++
						}
						last = y
					}
				}
			}(g)
		}
		close(start)
		wg.Wait()
		for g := 0; g < G; g++ {
			res.Events = append(res.Events, evs[g]...)
			for k, v := range trans[g] {
				res.Transitions[k] += v
			}
		}
		if calendar.VerifCacheLockHeld() {
			res.LockHeld = append(res.LockHeld, -1)
		}
	case "firstuse":
		// simultaneous FIRST use: each goroutine owns a private Lunar of the same moment (built before the start barrier,
		// constructors only) and calls every accessor in one common, rotated order, so that lazily initialised
		// package-level state is first touched by all goroutines at once, with no lock in between to order them
		const G = 16
		res.Goroutines = G
		rng := rand.New(rand.NewSource(seed*53 + int64(idx)))
		y := c09Years[rng.Intn(len(c09Years))]
		_, m, d := c09Day(rng, y)
		hh, mi, ss := rng.Intn(24), rng.Intn(60), rng.Intn(60)
		objs := make([]*calendar.Lunar, G)
		for g := range objs {
			objs[g] = calendar.NewSolar(y, m, d, hh, mi, ss).GetLunar()
		}
		ms := zeroArgMethods(reflect.TypeOf(objs[0]))
		rot := (idx * 37) % len(ms)
		digs := make([]string, G)
		var wg sync.WaitGroup
		start := make(chan struct{})
		for g := 0; g < G; g++ {
			wg.Add(1)
			go func(g int) {
				defer wg.Done()
				v := reflect.ValueOf(objs[g])
				parts := make([]string, len(ms))
				<-start
				for k := range ms {
					i := (k + rot) % len(ms)
					out, pv := callMethod(v, ms[i])
					if pv != nil {
						parts[i] = ms[i].Name + "=panic:" + fmt.Sprint(pv)
					} else {
						parts[i] = ms[i].Name + "=" + render(out, 1, nil)
					}
				}
				digs[g] = strings.Join(parts, ";")
			}(g)
		}
		close(start)
		wg.Wait()
		again := walkObject(reflect.ValueOf(calendar.NewSolar(y, m, d, hh, mi, ss).GetLunar()), 1, nil)
		again = strings.TrimSuffix(strings.TrimPrefix(again, "Lunar{"), ";}")
		for g := 0; g < G; g++ {
			res.SharedCalls += len(ms)
			if digs[g] != again {
				res.Shared = append(res.Shared, fmt.Sprintf("first concurrent use: a private Lunar of %04d-%02d-%02d %02d:%02d:%02d walked by goroutine %d differs from a later sequential walk: %s", y, m, d, hh, mi, ss, g, diffDigests(digs[g], again)))
			}
		}
	case "cold":
		// cold process: accessor number idx of the universe (all zero-argument accessors of twelve object types built
		// for one fixed moment) is the first accessor called in this process (after the constructors), the others follow.
		// The parent compares what an accessor says when it comes first with what it says in the other children, where
		// it comes late: package-level tables built on first use must not change an answer.
		mk := func() []reflect.Value {
			// 2024-05-12: a weekday-festival day (second Sunday of May), so that festival look-ups have something to find
			l := calendar.NewSolar(2024, 5, 12, 9, 10, 11).GetLunar()
			os := []interface{}{l, l.GetSolar(), l.GetEightChar(), l.GetFoto(), l.GetTao(), l.GetTime(),
				calendar.NewLunarMonthFromYm(l.GetYear(), l.GetMonth()), calendar.NewLunarYear(l.GetYear()), calendar.NewSolarWeekFromYmd(2024, 5, 12, 1),
				calendar.NewSolarMonthFromYm(2024, 5), calendar.NewSolarYearFromYear(2024), calendar.NewNineStar(4)}
			vs := make([]reflect.Value, len(os))
			for i, o := range os {
				vs[i] = reflect.ValueOf(o)
			}
			return vs
		}
		vs := mk()
		type slot struct {
			oi int
			m  reflect.Method
		}
		var universe []slot
		for oi, v := range vs {
			for _, mt := range zeroArgMethods(v.Type()) {
				universe = append(universe, slot{oi, mt})
			}
		}
		res.Transitions["universe"] = len(universe)
		call := func(k int) string {
			s := universe[k]
			out, pv := callMethod(vs[s.oi], s.m)
			if pv != nil {
				return "panic:" + fmt.Sprint(pv)
			}
			return sha(render(out, 0, nil))
		}
		// the extra indexes past the universe ask exported helpers first
		if idx < len(universe) {
			res.Events = append(res.Events, c09Event{idx, call(idx)})
		}
		for k := range universe {
			if k != idx {
				res.Events = append(res.Events, c09Event{k, call(k)})
			}
		}
	case "firstslot":
		// simultaneous first use, made independent of timing: 64 goroutines in 32 pairs; both goroutines of a pair own
		// private objects of the same moment (built before the start barrier, constructors only) and make the SAME
		// accessor their very first call after the barrier. Between the barrier and that call a goroutine has taken
		// no lock, so if the accessor fills package-level state lazily without proper synchronisation the pair's two
		// accesses are unordered whatever the scheduler does and the race detector reports them. The pairs' windows
		// of accessors are disjoint, so nobody else touches that state first (the detector remembers only the last
		// few accesses of a word). Round idx shifts every pair's window by idx: `stride` rounds make every accessor of
		// every type the first call of some pair. The results are also compared with a later sequential walk.
		const G = 64
		res.Goroutines = G
		rng := rand.New(rand.NewSource(seed*59 + int64(idx)))
		y := c09Years[rng.Intn(len(c09Years))]
		_, m, d := c09Day(rng, y)
		hh, mi, ss := rng.Intn(24), rng.Intn(60), rng.Intn(60)
		mk := func() []reflect.Value {
			l := calendar.NewSolar(y, m, d, hh, mi, ss).GetLunar()
			os := []interface{}{l, l.GetSolar(), l.GetEightChar(), l.GetFoto(), l.GetTao(), l.GetTime(),
				calendar.NewLunarMonthFromYm(l.GetYear(), l.GetMonth()), calendar.NewLunarYear(l.GetYear()), calendar.NewSolarWeekFromYmd(y, m, d, 1),
				calendar.NewSolarMonthFromYm(y, m), calendar.NewSolarYearFromYear(y), calendar.NewNineStar((y + d) % 9)}
			vs := make([]reflect.Value, len(os))
			for i, o := range os {
				vs[i] = reflect.ValueOf(o)
			}
			return vs
		}
		type slot struct {
			oi int
			m  reflect.Method
		}
		var universe []slot
		for oi, v := range mk() {
			for _, mt := range zeroArgMethods(v.Type()) {
				universe = append(universe, slot{oi, mt})
			}
		}
		stride := (len(universe) + G/2 - 1) / (G / 2)
		sets := make([][]reflect.Value, G)
		for g := range sets {
			sets[g] = mk()
		}
		got := make([]map[int]string, G)
		call := func(vs []reflect.Value, k int) string {
			s := universe[k]
			out, pv := callMethod(vs[s.oi], s.m)
			if pv != nil {
				return "panic:" + fmt.Sprint(pv)
			}
			return render(out, 0, nil)
		}
		var wg sync.WaitGroup
		start := make(chan struct{})
		for g := 0; g < G; g++ {
			wg.Add(1)
			go func(g int) {
				defer wg.Done()
				first := (g / 2) * stride
				mine := map[int]string{}
				vs := sets[g]
				<-start
				for k := 0; k < stride; k++ {
					i := first + (idx+k)%stride
					if i < len(universe) {
						mine[i] = call(vs, i)
					}
				}
				got[g] = mine
			}(g)
		}
		close(start)
		wg.Wait()
		seq := mk()
		again := map[int]string{}
		for g := 0; g < G; g++ {
			for k, v := range got[g] {
				res.SharedCalls++
				a, ok := again[k]
				if !ok {
					a = call(seq, k)
					again[k] = a
				}
				if a != v {
					res.Shared = append(res.Shared, fmt.Sprintf("first concurrent use: %s.%s on a private object of %04d-%02d-%02d %02d:%02d:%02d returned %.120s to goroutine %d and %.120s to a later sequential caller", typeName(seq[universe[k].oi].Type()), universe[k].m.Name, y, m, d, hh, mi, ss, v, g, a))
				}
			}
		}
		res.Transitions["universe"] = len(universe)
		res.Transitions["stride"] = stride
	case "shared":
		// one shared object of each type, walked concurrently through all zero-argument accessors
		const G = 16
		res.Goroutines = G
		rng := rand.New(rand.NewSource(seed*31 + int64(idx)))
		y := c09Years[rng.Intn(len(c09Years))]
		_, m, d := c09Day(rng, y)
		hh, mi, ss := rng.Intn(24), rng.Intn(60), rng.Intn(60)
		gender, wstart := rng.Intn(2), rng.Intn(7)
		// two identical object sets: A is walked sequentially for the reference, B is first touched by the
		// concurrent readers (so lazily initialised state is exercised under concurrency)
		build := func() []interface{} {
			sol := calendar.NewSolar(y, m, d, hh, mi, ss)
			lun := sol.GetLunar()
			ly, lm, ld := lun.GetYear(), lun.GetMonth(), lun.GetDay()
			other := calendar.NewSolar(y, m, d, hh, mi, ss).GetLunar()
			yun := calendar.NewYun(other.GetEightChar(), gender, 1+gender)
			objs := []interface{}{sol, lun, calendar.NewLunarYear(ly), calendar.NewLunarMonthFromYm(ly, lm), calendar.NewLunarTime(ly, lm, ld, hh, mi, ss),
				yun, calendar.NewTao(ly+2697, lm, ld, hh, mi, ss), calendar.NewFoto(ly+544, lm, ld, hh, mi, ss), calendar.NewNineStar((y + d) % 9),
				calendar.NewSolarWeekFromYmd(y, m, d, wstart), calendar.NewSolarMonthFromYm(y, m), calendar.NewSolarSeasonFromYm(y, m), calendar.NewSolarHalfYearFromYm(y, m), calendar.NewSolarYearFromYear(y),
				calendar.NewJieQi("清明", calendar.NewSolar(y, m, d, hh, mi, ss))}
			if h := HolidayUtil.GetHoliday("2020-10-01"); h != nil {
				objs = append(objs, h)
			}
			// handed out from the cache, hence the same objects for every caller of the same year
			lyo := calendar.NewLunarYear(ly)
			for _, mo := range []*calendar.LunarMonth{lyo.GetMonth(1), lyo.GetMonth(12), lyo.GetMonth(-lyo.GetLeapMonth())} {
				if mo != nil {
					objs = append(objs, mo)
				}
			}
			return objs
		}
		depthOf := func(o interface{}) int {
			switch o.(type) {
			case *calendar.Lunar, *calendar.Yun:
				return 1
			}
			return 0
		}
		setA := build()
		want := make([]string, len(setA))
		for i, o := range setA {
			want[i] = sha(walkObject(reflect.ValueOf(o), depthOf(o), nil))
		}
		wantCalls := map[string]string{}
		for _, c := range c09ObjCalls {
			wantCalls[c.name] = sha(c.f(calendar.NewSolar(y, m, d, hh, mi, ss).GetLunar()))
		}
		// the year and month objects are handed out from the cache: without a reset set B would be the very objects
		// the sequential reference has just warmed up
		calendar.VerifResetCache()
		objs := build()
		sol := objs[0].(*calendar.Solar)
		lunB := calendar.NewSolar(y, m, d, hh, mi, ss).GetLunar()
		var mu sync.Mutex
		var wg sync.WaitGroup
		start := make(chan struct{})
		for g := 0; g < G; g++ {
			wg.Add(1)
			go func(g int) {
				defer wg.Done()
				<-start
				for rep := 0; rep < 2; rep++ {
					for k := range objs {
						i := (k + g) % len(objs)
						got := sha(walkObject(reflect.ValueOf(objs[i]), depthOf(objs[i]), nil))
						mu.Lock()
						res.SharedCalls++
						if got != want[i] {
							res.Shared = append(res.Shared, fmt.Sprintf("%T built from %s: accessor digest under concurrent readers differs from the sequential one", objs[i], sol.ToYmdHms()))
						}
						mu.Unlock()
					}
					// parameterised accessors on one shared Lunar, each goroutine in its own order
					perm := rand.New(rand.NewSource(seed + int64(g)*17 + int64(rep))).Perm(len(c09ObjCalls))
					for _, ci := range perm {
						c := c09ObjCalls[ci]
						got := sha(c.f(lunB))
						mu.Lock()
						res.SharedCalls++
						if got != wantCalls[c.name] {
							res.Shared = append(res.Shared, fmt.Sprintf("%s on a shared Lunar built from %s returned a different result under concurrent callers than on a fresh object", c.name, sol.ToYmdHms()))
						}
						mu.Unlock()
					}
				}
			}(g)
		}
		close(start)
		wg.Wait()
	}
	res.Done = true
	b, _ := json.Marshal(res)
	os.WriteFile(out+".tmp", b, 0644)
	os.Rename(out+".tmp", out)
	return 0
}

// concLimit: how many descriptors each goroutine of a concurrent round executes (env set by the parent).
func concLimit() int {
	if v, err := strconv.Atoi(os.Getenv("LUNARMON_C09_CONC")); err == nil && v > 0 {
		return v
	}
	return 1 << 30
}

// ---------------------------------------------------------------- parent

type c09Run struct {
	mode   string
	idx    int
	out    *c09ChildOut
	failed bool
	reason string
	stderr string
	cur    string
}

func (pc *Parent) c09Spawn(exe, mode, opsFile string, idx int, timeout time.Duration, env []string) c09Run {
	out := filepath.Join(pc.Tmp, fmt.Sprintf("c09-%s-%d.json", mode, idx))
	errf := out + ".err"
	ef, _ := os.Create(errf)
	cmd := exec.Command(exe, "c09child", mode, opsFile, strconv.FormatInt(pc.Seed, 10), strconv.Itoa(idx), out)
	cmd.Stdout, cmd.Stderr = ef, ef
	cmd.Env = append(os.Environ(), env...)
	r := c09Run{mode: mode, idx: idx}
	if err := cmd.Start(); err != nil {
		r.failed, r.reason = true, err.Error()
		return r
	}
	done := make(chan error, 1)
	go func() { done <- cmd.Wait() }()
	var werr error
	select {
	case werr = <-done:
	case <-time.After(timeout):
		cmd.Process.Signal(syscall.SIGQUIT)
		select {
		case <-done:
		case <-time.After(5 * time.Second):
			cmd.Process.Kill()
			<-done
		}
		r.failed, r.reason = true, "watchdog"
	}
	ef.Close()
	eb, _ := os.ReadFile(errf)
	r.stderr = string(eb)
	r.cur = readCur(out + ".cur")
	if r.failed {
		return r
	}
	b, rerr := os.ReadFile(out)
	var co c09ChildOut
	if werr != nil || rerr != nil || json.Unmarshal(b, &co) != nil || !co.Done {
		r.failed = true
		r.reason = fmt.Sprintf("child died: %v", werr)
		return r
	}
	r.out = &co
	return r
}

// raceBlocks parses GORACE log files and returns the distinct reports that involve a lunar-go frame.
func raceBlocks(prefix string) (total int, lib map[string]string) {
	lib = map[string]string{}
	files, _ := filepath.Glob(prefix + ".*")
	for _, f := range files {
		b, err := os.ReadFile(f)
		if err != nil {
			continue
		}
		for _, blk := range strings.Split(string(b), "==================") {
			if !strings.Contains(blk, "WARNING: DATA RACE") {
				continue
			}
			total++
			var frames []string
			for _, ln := range strings.Split(blk, "\n") {
				t := strings.TrimSpace(ln)
				if strings.HasPrefix(t, "github.com/6tail/lunar-go/") {
					fn := t
					if k := strings.LastIndex(fn, "("); k > 0 {
						fn = fn[:k]
					}
					frames = append(frames, strings.TrimPrefix(fn, "github.com/6tail/lunar-go/"))
				}
			}
			if len(frames) == 0 {
				continue
			}
			// outermost pair: first lunar-go frame of each of the two stacks is enough for dedup
			key := frames[0]
			if len(frames) > 1 {
				key += " | " + frames[len(frames)-1]
			}
			if _, ok := lib[key]; !ok {
				if len(blk) > 2500 {
					blk = blk[:2500]
				}
				lib[key] = blk
			}
		}
	}
	return
}

func firstDiffName(a, b string) string {
	pa, pb := strings.Split(a, ";"), strings.Split(b, ";")
	for i := 0; i < len(pa) && i < len(pb); i++ {
		if pa[i] != pb[i] {
			return strings.SplitN(pa[i], "=", 2)[0]
		}
	}
	return ""
}

func firstDiff(a, b string) string {
	pa, pb := strings.Split(a, ";"), strings.Split(b, ";")
	for i := 0; i < len(pa) && i < len(pb); i++ {
		if pa[i] != pb[i] {
			return pa[i] + " vs reference " + pb[i]
		}
	}
	return "(lengths differ)"
}

func c09Custom(pc *Parent) {
	quick := pc.Tier == "quick"
	nOps, orders, concRounds, sharedRounds := 300, 3, 4, 4
	if !quick {
		nOps, orders, concRounds, sharedRounds = 700, 12, 16, 24
	}
	ops, hostile := c09Ops(pc.Seed, nOps)
	all := append(append([]c09Op{}, ops...), hostile...)
	opsFile := filepath.Join(pc.Tmp, "c09-ops.json")
	ob, _ := json.Marshal(all)
	os.WriteFile(opsFile, ob, 0644)
	// concurrency workloads use the valid ops plus the recoverable hostile ones too
	pc.NCases = len(all)
	timeout := 20 * time.Minute
	if !quick {
		timeout = 90 * time.Minute
	}

	handleFail := func(r c09Run) {
		switch {
		case strings.Contains(r.stderr, "all goroutines are asleep - deadlock"):
			pc.Violate("blocked", r.mode+"/"+r.cur, fmt.Sprintf("after a recovered call the library blocked forever: the runtime reported 'all goroutines are asleep - deadlock!' while %s child %d was executing %s", r.mode, r.idx, r.cur), nil, map[string]string{"pending": r.cur})
		case strings.Contains(r.stderr, "fatal error: concurrent map") || strings.Contains(r.stderr, "fatal error:"):
			pc.Violate("fatal", r.mode+"/"+tail(r.stderr, 120), fmt.Sprintf("%s child %d died with a runtime fatal error while executing %s: %s", r.mode, r.idx, r.cur, tail(r.stderr, 800)), nil, nil)
		case r.reason == "watchdog":
			// a hang is the property itself (never leaves the library blocked); re-run once to rule out machine load
			pc.Inconclusive(fmt.Sprintf("%s child %d hit the wall-clock watchdog at %s", r.mode, r.idx, r.cur))
		default:
			pc.Inconclusive(fmt.Sprintf("%s child %d failed: %s: %s", r.mode, r.idx, r.reason, tail(r.stderr, 400)))
		}
	}

	// A. history-free reference (plain build)
	refRun := pc.c09Spawn(pc.selfExe, "ref", opsFile, 0, timeout, nil)
	if refRun.failed {
		handleFail(refRun)
		return
	}
	refDig := map[int]string{}
	for _, e := range refRun.out.Events {
		refDig[e.I] = e.D
	}
	for _, i := range refRun.out.LockHeld {
		pc.Violate("lock", fmt.Sprintf("ref/%s", all[i].String()), fmt.Sprintf("the year-cache lock is still held after %s returned", all[i].String()), nil, nil)
	}
	pc.R.Evals += int64(len(refRun.out.Events))
	judge := func(mode string, idx int, evs []c09Event) {
		for _, e := range evs {
			pc.R.Evals++
			if strings.HasPrefix(e.D, "LEAK") {
				pc.Violate("setter-leak", all[e.I].String(), fmt.Sprintf("%s: %s", all[e.I].String(), e.D), nil, map[string]interface{}{"op": all[e.I]})
				continue
			}
			if e.D != refDig[e.I] {
				what := fmt.Sprintf("digest %.16s vs %.16s", e.D, refDig[e.I])
				if all[e.I].K == "obj" {
					what = "first differing call on the shared object: " + firstDiff(e.D, refDig[e.I])
				}
				pc.Violate("digest-"+mode, all[e.I].String()+"/"+firstDiffName(e.D, refDig[e.I]), fmt.Sprintf("%s returned a different result in %s run %d than the history-free reference (%s): the result depends on history/schedule", all[e.I].String(), mode, idx, what), nil, map[string]interface{}{"op": all[e.I], "mode": mode, "run": idx})
			}
		}
		pc.R.Distinct += int64(len(all))
	}

	// B. histories (plain build, single goroutine => runtime deadlock detector is armed)
	var wg sync.WaitGroup
	var mu sync.Mutex
	hist := make([]c09Run, orders)
	sem := make(chan struct{}, pc.Workers)
	for k := 0; k < orders; k++ {
		wg.Add(1)
		go func(k int) {
			defer wg.Done()
			sem <- struct{}{}
			r := pc.c09Spawn(pc.selfExe, "hist", opsFile, k, timeout, nil)
			<-sem
			mu.Lock()
			hist[k] = r
			mu.Unlock()
		}(k)
	}
	wg.Wait()
	for k, r := range hist {
		if r.failed {
			handleFail(r)
			continue
		}
		judge("history", k, r.out.Events)
		for _, i := range r.out.LockHeld {
			pc.Violate("lock", fmt.Sprintf("hist/%s", all[i].String()), fmt.Sprintf("the year-cache lock is still held after %s returned or was recovered", all[i].String()), nil, nil)
		}
		pc.R.Counters["history-events"] += int64(len(r.out.Events))
	}
	pc.R.Counters["histories"] = int64(orders)
	pc.R.Counters["hostile-descriptors"] = int64(len(hostile))

	// B2. initial state: a sample of descriptors, each as the very first call of a fresh process
	firstIdx := []int{}
	for i := len(ops) - 5; i < len(ops); i++ { // the year-0 / year-1 descriptors
		firstIdx = append(firstIdx, i)
	}
	nFirst := 12
	if !quick {
		nFirst = 60
	}
	frng := rand.New(rand.NewSource(pc.Seed*131 + 7))
	for k := 0; k < nFirst; k++ {
		firstIdx = append(firstIdx, frng.Intn(len(ops)-5))
	}
	firstRes := make([]c09Run, len(firstIdx))
	for k, i := range firstIdx {
		wg.Add(1)
		go func(k, i int) {
			defer wg.Done()
			sem <- struct{}{}
			firstRes[k] = pc.c09Spawn(pc.selfExe, "first", opsFile, i, timeout, nil)
			<-sem
		}(k, i)
	}
	wg.Wait()
	for _, r := range firstRes {
		if r.failed {
			handleFail(r)
			continue
		}
		judge("first-call", r.idx, r.out.Events)
		pc.R.Distinct -= int64(len(all)) - 1
		pc.R.Counters["first-call-processes"]++
	}

	// B3. cold processes: every accessor of the universe once as the first accessor of a fresh process
	{
		probe := pc.c09Spawn(pc.selfExe, "cold", opsFile, 1<<30, timeout, nil)
		nU := 0
		if !probe.failed {
			nU = probe.out.Transitions["universe"]
		} else {
			handleFail(probe)
		}
		stride := 1
		if quick {
			stride = 3 // a third of the accessors per run, rotating with the seed
		}
		var idxs []int
		for k := int(pc.Seed % int64(stride)); k < nU; k += stride {
			idxs = append(idxs, k)
		}
		cold := make([]c09Run, len(idxs))
		for j, k := range idxs {
			wg.Add(1)
			go func(j, k int) {
				defer wg.Done()
				sem <- struct{}{}
				cold[j] = pc.c09Spawn(pc.selfExe, "cold", opsFile, k, timeout, nil)
				<-sem
			}(j, k)
		}
		wg.Wait()
		warm := map[int]string{}
		for _, e := range probe.out.Events {
			warm[e.I] = e.D
		}
		for _, r := range cold {
			if r.failed {
				handleFail(r)
				continue
			}
			for n, e := range r.out.Events {
				if w, ok := warm[e.I]; ok && w != e.D {
					when := "late"
					if n == 0 {
						when = "first"
					}
					pc.Violate("cold-first-call", fmt.Sprintf("slot%d", e.I), fmt.Sprintf("accessor number %d of the cold-process universe (2024-05-12 09:10:11 objects) answers %s when it is called %s in a fresh process whose first accessor was number %d, and %s in a process that started with another accessor", e.I, e.D, when, r.idx, w), nil, nil)
				}
				pc.R.Evals++
			}
			pc.R.Counters["cold-processes"]++
		}
	}
	// (matrix aid: with LUNARMON_FAILFAST=1 a run that has already found history dependence skips the schedule phase)
	if os.Getenv("LUNARMON_FAILFAST") == "1" && len(pc.R.Violations) > 0 {
		return
	}
	// C. schedules under the race detector
	if pc.raceExe == "" {
		pc.Inconclusive("race-instrumented build missing")
		return
	}
	raceLog := filepath.Join(pc.Tmp, "race")
	perG := 90
	if !quick {
		perG = 400
	}
	env := []string{"GORACE=halt_on_error=0 log_path=" + raceLog, fmt.Sprintf("LUNARMON_C09_CONC=%d", perG)}
	trans := map[string]int{}
	// race children are heavy: run 4 at a time (each has 16 goroutines)
	rsem := make(chan struct{}, 8)
	type rr struct {
		mode string
		k    int
	}
	var jobs []rr
	for k := 0; k < concRounds; k++ {
		jobs = append(jobs, rr{"conc", k})
	}
	for k := 0; k < sharedRounds; k++ {
		jobs = append(jobs, rr{"shared", k})
	}
	for k := 0; k < 2*sharedRounds; k++ {
		jobs = append(jobs, rr{"firstuse", k}) // cheap: one fresh process, 16 goroutines, one walk each
	}
	slotRounds := 16 // 32 first-call slots per round, windows of ceil(universe/32) accessors: that many rounds give every accessor its turn
	if !quick {
		slotRounds = 64
	}
	for k := 0; k < slotRounds; k++ {
		jobs = append(jobs, rr{"firstslot", k})
	}
	results := make([]c09Run, len(jobs))
	for i, j := range jobs {
		wg.Add(1)
		go func(i int, j rr) {
			defer wg.Done()
			rsem <- struct{}{}
			results[i] = pc.c09Spawn(pc.raceExe, j.mode, opsFile, j.k, timeout, env)
			<-rsem
		}(i, j)
	}
	wg.Wait()
	for _, r := range results {
		if r.failed {
			handleFail(r)
			continue
		}
		if r.mode == "firstslot" {
			if u := r.out.Transitions["universe"]; u > 0 {
				pc.R.Extra["first_call_slot_universe"] = u
				pc.R.Extra["first_call_slot_rounds_needed"] = r.out.Transitions["stride"]
				delete(r.out.Transitions, "universe")
				delete(r.out.Transitions, "stride")
			}
			pc.R.Counters["first-call-slots"] += 32
		}
		if r.mode == "conc" {
			judge("schedule", r.idx, r.out.Events)
			for k, v := range r.out.Transitions {
				trans[k] += v
			}
			if len(r.out.LockHeld) > 0 {
				pc.Violate("lock", "conc", "the year-cache lock is held after all goroutines of a concurrent round have finished", nil, nil)
			}
			pc.R.Counters["concurrent-events"] += int64(len(r.out.Events))
		} else {
			for _, s := range r.out.Shared {
				key := s
				if i := strings.Index(s, " on a private"); i > 0 {
					key = s[:i]
				}
				pc.Violate("shared-digest", key, s, nil, nil)
			}
			pc.R.Evals += int64(r.out.SharedCalls)
			pc.R.Distinct += int64(r.out.SharedCalls / 2 / 16)
			pc.R.Counters["shared-object-walks"] += int64(r.out.SharedCalls)
		}
	}
	total, lib := raceBlocks(raceLog)
	pc.R.Counters["race-reports-total"] = int64(total)
	pc.R.Counters["race-reports-in-library"] = int64(len(lib))
	keys := make([]string, 0, len(lib))
	for k := range lib {
		keys = append(keys, k)
	}
	sort.Strings(keys)
	for _, k := range keys {
		pc.Violate("race", k, "the Go race detector reported a data race involving "+k, nil, map[string]string{"report": lib[k]})
	}
	pc.R.Extra["distinct_cache_transitions_seen"] = len(trans)
	pc.R.Extra["concurrent_rounds"] = concRounds
	pc.R.Extra["shared_object_rounds"] = sharedRounds
	pc.R.Extra["goroutines_per_round"] = 16
	tk := make([]string, 0, len(trans))
	for k := range trans {
		tk = append(tk, k)
	}
	sort.Strings(tk)
	if len(tk) > 12 {
		tk = tk[:12]
	}
	pc.R.Samples = append(pc.R.Samples, map[string]interface{}{"descriptor": all[0], "reference_digest": refDig[0]}, map[string]interface{}{"hostile_descriptor": hostile[9], "reference_digest": refDig[len(ops)+9]}, map[string]interface{}{"cache_transitions_sample": tk})
	if len(trans) < 10 {
		pc.Inconclusive(fmt.Sprintf("only %d distinct cache transitions were observed under concurrency: the schedules did not interleave", len(trans)))
	}
	_ = ref.MinJDN
}

package main

// C08 - every accessor is total on valid dates and returns well-formed values.
// A reflective walker discovers the zero-argument accessors (so new or renamed accessors are
// covered automatically) and a rule table judges every returned value.

import (
	"container/list"
	"fmt"
	"reflect"
	"regexp"
	"sort"
	"strings"

	"github.com/6tail/lunar-go/FotoUtil"
	"github.com/6tail/lunar-go/HolidayUtil"
	"github.com/6tail/lunar-go/LunarUtil"
	"github.com/6tail/lunar-go/SolarUtil"
	"github.com/6tail/lunar-go/TaoUtil"
	"github.com/6tail/lunar-go/calendar"
	"lunarmon/ref"
)

func init() {
	register(&Prop{
		ID:   "C08",
		Rule: "cases: one civil year each; per year a handful of root moments chosen from boundary classes (seeded day at a boundary time of day, a solar-term day at 23:30, a leap-month day or lunar New Year, the last day of the lunar year, lunar 1/1 .. fixed festival days, first/last day of range, 1582-10-04/15, the lead days). From each root the walker calls every exported zero-argument method of Solar, Lunar, EightChar (both sects), Yun (2 genders x 2 schools) -> DaYun -> LiuNian -> LiuYue / XiaoYun, LunarTime (current + the 13 of the day), NineStar, JieQi, Fu, ShuJiu, Tao, Foto and their festivals, LunarYear, LunarMonth, SolarWeek (7 starts), SolarMonth, SolarSeason, SolarHalfYear, SolarYear, Holiday; each call must return (no panic), indexes stay in range, names belong to their vocabulary, strings are non-empty unless allow-listed, lists have no duplicates. distinct_nontrivial counts distinct (root moment, configuration) pairs walked; (type, method) pairs exercised are listed in the evidence.",
		Assumptions: []string{
			"closed vocabularies (stems, branches, 60 pairs) are generated in the harness; open ones are read from the library's exported tables at run time so data updates do not alarm",
			"allow-list of possibly empty strings: no term today, leap-month tai position, the period before the first great fortune, the middle palace's gate, festival result/remark",
		},
		Gen: c08Gen, Run: c08Run, Init: c08Init,
		Exhaustive: func(tier string) bool { return false },
		MinEvals:   map[string]int64{"quick": 1000000, "thorough": 20000000},
		Chunks:     128,
	})
}

func c08Gen(g *Gen) []Case {
	cs := []Case{{K: "fixed"}}
	if g.Quick {
		cs = append(cs, yearCases("year", sampleYears(g.Rng, 300, true))...)
	} else {
		cs = append(cs, yearCases("year", allYears())...)
	}
	return cs
}

// ---- vocabularies

type strset map[string]bool

func setOf(xs ...string) strset {
	s := strset{}
	for _, x := range xs {
		if x != "" {
			s[x] = true
		}
	}
	return s
}
func valuesOf(m map[string]string) strset {
	s := strset{}
	for _, v := range m {
		s[v] = true
	}
	return s
}
func keysOf(m map[string]string) strset {
	s := strset{}
	for k := range m {
		s[k] = true
	}
	return s
}

var (
	vStems, vBranches, vPairs, vAnimals, vNayin, vXun, vXunKong, vPalace, vPalaceDesc strset
	vTaiDay, vTaiMonth, vXiu, vLuck, vZheng, vAnimal28, vGong, vShou, vSha            strset
	vZhiXing, vTianShen, vTianShenType, vChangSheng, vShiShen, vWuXing                strset
	vXingZuo, vLiuYao, vYueXiang, vSeason, vWuHou, vHou, vTerms, vWeek, vDigits       strset
	vMonthCN, vDayCN, vPengZuGan, vPengZuZhi, vFu, vShuJiu                            strset
	vNS                                                                               map[string]strset
	reHm                                                                              = regexp.MustCompile(`^\d\d:\d\d$`)
	reYmd                                                                             = regexp.MustCompile(`^\d{4}-\d{2}-\d{2}$`)
	reGan                                                                             = regexp.MustCompile(`Gan(Exact2?|ByLiChun)?$`)
	reZhi                                                                             = regexp.MustCompile(`Zhi(Exact2?|ByLiChun)?$`)
)

func c08Init(w *W) {
	vStems = setOf(ref.Stems...)
	vBranches = setOf(ref.Branches...)
	vPairs = strset{}
	for i := 0; i < 60; i++ {
		vPairs[ref.Pair60(i)] = true
	}
	vAnimals = setOf(LunarUtil.SHENG_XIAO...)
	vNayin = valuesOf(LunarUtil.NAYIN)
	vXun = setOf(LunarUtil.XUN...)
	vXunKong = setOf(LunarUtil.XUN_KONG...)
	vPalace = keysOf(LunarUtil.POSITION_DESC)
	vPalaceDesc = valuesOf(LunarUtil.POSITION_DESC)
	vTaiDay = setOf(LunarUtil.POSITION_TAI_DAY...)
	vTaiMonth = setOf(LunarUtil.POSITION_TAI_MONTH...)
	vXiu = valuesOf(LunarUtil.XIU)
	vLuck = setOf("吉", "凶")
	vZheng = valuesOf(LunarUtil.ZHENG)
	vAnimal28 = valuesOf(LunarUtil.ANIMAL)
	vGong = valuesOf(LunarUtil.GONG)
	vShou = valuesOf(LunarUtil.SHOU)
	vSha = valuesOf(LunarUtil.SHA)
	vZhiXing = setOf(LunarUtil.ZHI_XING...)
	vTianShen = setOf(LunarUtil.TIAN_SHEN...)
	vTianShenType = valuesOf(LunarUtil.TIAN_SHEN_TYPE)
	vChangSheng = setOf(calendar.CHANG_SHENG...)
	vShiShen = valuesOf(LunarUtil.SHI_SHEN)
	vShiShen["日主"] = true
	vWuXing = setOf("金", "木", "水", "火", "土")
	vXingZuo = setOf(SolarUtil.XINGZUO...)
	vLiuYao = setOf(LunarUtil.LIU_YAO...)
	vYueXiang = setOf(LunarUtil.YUE_XIANG...)
	vSeason = setOf(LunarUtil.SEASON...)
	vWuHou = setOf(LunarUtil.WU_HOU...)
	vHou = setOf(LunarUtil.HOU...)
	vTerms = setOf(termNames24...)
	vWeek = setOf(SolarUtil.WEEK...)
	vDigits = setOf(LunarUtil.NUMBER[:10]...)
	vMonthCN = setOf(LunarUtil.MONTH...)
	vDayCN = setOf(LunarUtil.DAY...)
	vPengZuGan = setOf(LunarUtil.PENGZU_GAN...)
	vPengZuZhi = setOf(LunarUtil.PENGZU_ZHI...)
	vFu = setOf("初伏", "中伏", "末伏")
	vShuJiu = setOf("一九", "二九", "三九", "四九", "五九", "六九", "七九", "八九", "九九")
	vNS = map[string]strset{
		"GetNumber": setOf(calendar.NUMBER...), "GetColor": setOf(calendar.COLOR...), "GetWuXing": setOf(calendar.WU_XING...),
		"GetPosition": setOf(calendar.POSITION...), "GetNameInXuanKong": setOf(calendar.NAME_XUAN_KONG...), "GetNameInBeiDou": setOf(calendar.NAME_BEI_DOU...),
		"GetNameInQiMen": setOf(calendar.NAME_QI_MEN...), "GetNameInTaiYi": setOf(calendar.NAME_TAI_YI...), "GetLuckInQiMen": setOf(calendar.LUCK_QI_MEN...),
		"GetLuckInXuanKong": setOf(calendar.LUCK_XUAN_KONG...), "GetYinYangInQiMen": setOf(calendar.YIN_YANG_QI_MEN...), "GetTypeInTaiYi": setOf(calendar.TYPE_TAI_YI...),
		"GetBaMenInQiMen": setOf(calendar.BA_MEN_QI_MEN...), "GetSongInTaiYi": setOf(calendar.SONG_TAI_YI...),
	}
	_ = FotoUtil.XIU_27
	_ = TaoUtil.AN_WU
}

func intMethod(recv reflect.Value, name string) (int, bool) {
	m := recv.MethodByName(name)
	if !m.IsValid() || m.Type().NumIn() != 0 || m.Type().NumOut() != 1 || m.Type().Out(0).Kind() != reflect.Int {
		return 0, false
	}
	return int(m.Call(nil)[0].Int()), true
}

// ---- rules

func inSet(s strset, v, what string) string {
	if !s[v] {
		return fmt.Sprintf("%q is not in the %s vocabulary", v, what)
	}
	return ""
}

func allRunesIn(s strset, v, what string) string {
	if v == "" {
		return "empty string"
	}
	for _, r := range v {
		if !s[string(r)] {
			return fmt.Sprintf("%q has a character outside the %s vocabulary", v, what)
		}
	}
	return ""
}

// c08String judges a string result; returns "" if well-formed.
func c08String(typ, m string, recv reflect.Value, v string) string {
	tm := typ + "." + m
	idx, hasIdx := intMethod(recv, "GetIndex")
	switch tm {
	case "Lunar.GetJieQi", "Lunar.GetJie", "Lunar.GetQi":
		if v == "" {
			return ""
		}
		return inSet(vTerms, v, "solar-term")
	case "Lunar.GetMonthPositionTai":
		if v == "" {
			if mo, ok := intMethod(recv, "GetMonth"); ok && mo < 0 {
				return ""
			}
			return "empty outside a leap month"
		}
		return inSet(vTaiMonth, v, "month tai position")
	case "DaYun.GetGanZhi", "DaYun.GetXun", "DaYun.GetXunKong":
		if v == "" {
			if hasIdx && idx == 0 {
				return ""
			}
			return "empty for a great fortune with index > 0"
		}
	case "NineStar.GetBaMenInQiMen":
		if v == "" {
			if hasIdx && idx == 4 {
				return ""
			}
			return "empty gate outside the middle palace"
		}
	case "TaoFestival.GetRemark", "FotoFestival.GetResult", "FotoFestival.GetRemark":
		return ""
	case "Holiday.GetDay", "Holiday.GetTarget":
		if !reYmd.MatchString(v) {
			return fmt.Sprintf("%q is not YYYY-MM-DD", v)
		}
		return ""
	case "LunarTime.GetMinHm", "LunarTime.GetMaxHm":
		if !reHm.MatchString(v) {
			return fmt.Sprintf("%q is not HH:MM", v)
		}
		return ""
	case "EightChar.GetYear", "EightChar.GetMonth", "EightChar.GetDay", "EightChar.GetTime", "LunarTime.String", "LunarTime.ToString":
		return inSet(vPairs, v, "60-pair")
	case "JieQi.GetName", "JieQi.String":
		return inSet(vTerms, v, "solar-term")
	case "Fu.GetName", "Fu.String", "Fu.ToString":
		return inSet(vFu, v, "dog-day period")
	case "ShuJiu.GetName", "ShuJiu.String", "ShuJiu.ToString":
		return inSet(vShuJiu, v, "nine-nines")
	case "Lunar.GetHou":
		p := strings.SplitN(v, " ", 2)
		if len(p) != 2 || !vTerms[p[0]] || !vHou[p[1]] {
			return fmt.Sprintf("%q is not '<term> <pentad>'", v)
		}
		return ""
	case "LiuYue.GetMonthInChinese":
		return inSet(vMonthCN, v, "month name")
	}
	if typ == "NineStar" {
		if s, ok := vNS[m]; ok {
			if v == "" {
				return "empty string"
			}
			return inSet(s, v, "nine-star "+m)
		}
	}
	if v == "" {
		return "empty string"
	}
	switch {
	case m == "String" || m == "ToString" || m == "ToFullString" || strings.HasPrefix(m, "To"):
		return ""
	case strings.Contains(m, "PengZuGan"):
		return inSet(vPengZuGan, v, "Pengzu stem taboo")
	case strings.Contains(m, "PengZuZhi"):
		return inSet(vPengZuZhi, v, "Pengzu branch taboo")
	case strings.Contains(m, "Position") && strings.Contains(m, "Desc"):
		return inSet(vPalaceDesc, v, "direction description")
	case m == "GetDayPositionTai":
		return inSet(vTaiDay, v, "day tai position")
	case strings.Contains(m, "Position"):
		return inSet(vPalace, v, "palace")
	case strings.Contains(m, "ChongDesc"):
		return ""
	case strings.Contains(m, "ShengXiao") || m == "GetShengxiao":
		return inSet(vAnimals, v, "animal")
	case strings.Contains(m, "ChongGan"):
		return inSet(vStems, v, "stem")
	case strings.Contains(m, "Chong"):
		return inSet(vBranches, v, "branch")
	case strings.HasSuffix(m, "Sha"):
		return inSet(vSha, v, "sha direction")
	case strings.Contains(m, "NaYin"):
		return inSet(vNayin, v, "nayin")
	case strings.Contains(m, "XunKong"):
		return inSet(vXunKong, v, "empty-branches")
	case strings.Contains(m, "Xun"):
		return inSet(vXun, v, "xun")
	case strings.Contains(m, "InGanZhi") || m == "GetGanZhi" || m == "GetTaiYuan" || m == "GetTaiXi" || m == "GetMingGong" || m == "GetShenGong":
		return inSet(vPairs, v, "60-pair")
	case strings.Contains(m, "ShiShenGan"):
		return inSet(vShiShen, v, "ten-god")
	case strings.Contains(m, "DiShi"):
		return inSet(vChangSheng, v, "life stage")
	case strings.Contains(m, "WuXing"):
		return allRunesIn(vWuXing, v, "five-element")
	case strings.Contains(m, "TianShenType"):
		return inSet(vTianShenType, v, "heavenly-spirit type")
	case strings.Contains(m, "TianShenLuck") || strings.Contains(m, "XiuLuck"):
		return inSet(vLuck, v, "luck")
	case strings.Contains(m, "TianShen"):
		return inSet(vTianShen, v, "heavenly spirit")
	case strings.Contains(m, "ZhiXing"):
		return inSet(vZhiXing, v, "duty god")
	case m == "GetXiu":
		return inSet(vXiu, v, "mansion")
	case m == "GetXiuSong":
		return ""
	case m == "GetZheng":
		return inSet(vZheng, v, "luminary")
	case m == "GetAnimal":
		return inSet(vAnimal28, v, "mansion animal")
	case m == "GetGong":
		return inSet(vGong, v, "palace quarter")
	case m == "GetShou":
		return inSet(vShou, v, "beast")
	case strings.Contains(m, "XingZuo") || strings.Contains(m, "Xingzuo"):
		return inSet(vXingZuo, v, "zodiac")
	case m == "GetLiuYao":
		return inSet(vLiuYao, v, "six-day cycle")
	case m == "GetYueXiang":
		return inSet(vYueXiang, v, "moon phase")
	case m == "GetSeason":
		return inSet(vSeason, v, "season")
	case m == "GetWuHou":
		return inSet(vWuHou, v, "phenology")
	case m == "GetWeekInChinese":
		return inSet(vWeek, v, "weekday")
	case m == "GetYearInChinese":
		return allRunesIn(vDigits, v, "digit")
	case m == "GetMonthInChinese":
		return inSet(vMonthCN, strings.TrimPrefix(v, "闰"), "month name")
	case m == "GetDayInChinese":
		return inSet(vDayCN, v, "day name")
	case reGan.MatchString(m):
		return inSet(vStems, v, "stem")
	case reZhi.MatchString(m):
		return inSet(vBranches, v, "branch")
	}
	return ""
}

type irange struct{ lo, hi int }

var c08IntRules = map[string]irange{
	"NineStar.GetIndex": {0, 8}, "Fu.GetIndex": {1, 20}, "ShuJiu.GetIndex": {1, 9}, "SolarWeek.GetIndex": {1, 6}, "SolarWeek.GetIndexInYear": {1, 54},
	"SolarSeason.GetIndex": {1, 4}, "SolarHalfYear.GetIndex": {1, 2}, "LiuYue.GetIndex": {0, 11}, "LiuNian.GetIndex": {0, 200}, "XiaoYun.GetIndex": {0, 200},
	"DaYun.GetIndex": {0, 9}, "LunarMonth.GetIndex": {1, 15}, "LunarMonth.GetDayCount": {28, 30}, "EightChar.GetSect": {1, 2}, "Yun.GetGender": {0, 1},
	"Yun.GetStartMonth": {0, 11}, "Yun.GetStartDay": {0, 29}, "Yun.GetStartHour": {0, 23}, "Yun.GetStartYear": {0, 12}, "LunarYear.GetLeapMonth": {0, 12},
	"LunarYear.GetDayCount": {320, 390}, "Solar.GetSalaryRate": {1, 3}, "Lunar.GetDay": {1, 30}, "Tao.GetDay": {1, 30}, "Foto.GetDay": {1, 30},
}

func c08Int(typ, m string, v int) string {
	if r, ok := c08IntRules[typ+"."+m]; ok {
		if v < r.lo || v > r.hi {
			return fmt.Sprintf("%d is outside %d..%d", v, r.lo, r.hi)
		}
		return ""
	}
	chk := func(lo, hi int) string {
		if v < lo || v > hi {
			return fmt.Sprintf("%d is outside %d..%d", v, lo, hi)
		}
		return ""
	}
	switch {
	case strings.Contains(m, "GanIndex"):
		return chk(0, 9)
	case strings.Contains(m, "ZhiIndex"):
		return chk(0, 11)
	case m == "GetWeek":
		return chk(0, 6)
	case m == "GetHour":
		return chk(0, 23)
	case m == "GetMinute" || m == "GetSecond":
		return chk(0, 59)
	case m == "GetDay":
		return chk(1, 31)
	case m == "GetMonth":
		if typ == "Lunar" || typ == "Tao" || typ == "Foto" || typ == "LunarMonth" {
			if v == 0 {
				return "month 0"
			}
			return chk(-12, 12)
		}
		return chk(1, 12)
	}
	return ""
}

// ---- walker with rules

type c08Walker struct {
	w      *W
	root   string
	budget map[string]int
	seen   map[uintptr]bool
	calls  int
}

var c08Budget = map[string]int{
	"Lunar": 1, "Solar": 3, "EightChar": 1, "LunarTime": 14, "NineStar": 10, "JieQi": 9, "Fu": 1, "ShuJiu": 1, "Foto": 1, "Tao": 1,
	"TaoFestival": 6, "FotoFestival": 8, "LunarYear": 1, "LunarMonth": 2, "SolarWeek": 8, "SolarMonth": 13, "SolarSeason": 1, "SolarHalfYear": 1,
	"SolarYear": 1, "Yun": 1, "DaYun": 10, "LiuNian": 12, "LiuYue": 12, "XiaoYun": 12, "Holiday": 2,
}

func (cw *c08Walker) elemKey(v reflect.Value) string {
	for v.Kind() == reflect.Interface {
		v = v.Elem()
	}
	if v.IsValid() && isLibType(v.Type()) && v.Kind() == reflect.Ptr && !v.IsNil() {
		return walkObject(v, 0, nil)
	}
	return render(v, 0, nil)
}

func (cw *c08Walker) report(typ, m, problem string) {
	cw.w.Violate("wellformed", typ+"."+m+"/"+problem, fmt.Sprintf("%s.%s at root %s: %s", typ, m, cw.root, problem), map[string]string{"root": cw.root})
}

// walk calls every accessor of obj, judges the results and descends into returned library objects.
func (cw *c08Walker) walk(v reflect.Value, depth int) {
	if !v.IsValid() || (v.Kind() == reflect.Ptr && v.IsNil()) {
		return
	}
	t := v.Type()
	tn := typeName(t)
	if v.Kind() == reflect.Ptr {
		if cw.seen[v.Pointer()] {
			return
		}
		cw.seen[v.Pointer()] = true
	}
	if cw.budget[tn] <= 0 {
		return
	}
	cw.budget[tn]--
	cw.w.Count("objects/"+tn, 1)
	for _, m := range zeroArgMethods(t) {
		cw.w.Curf("C08 %s.%s at %s", tn, m.Name, cw.root)
		out, pv := callMethod(v, m)
		cw.calls++
		cw.w.Class(tn + "." + m.Name)
		if pv != nil {
			cw.w.Violate("total", fmt.Sprintf("%s.%s/%v", tn, m.Name, pv), fmt.Sprintf("%s.%s panicked at root %s: %v", tn, m.Name, cw.root, pv), map[string]string{"root": cw.root})
			continue
		}
		cw.judge(tn, m.Name, v, out, depth)
	}
}

func (cw *c08Walker) judge(tn, mn string, recv, out reflect.Value, depth int) {
	for out.Kind() == reflect.Interface && !out.IsNil() {
		out = out.Elem()
	}
	switch out.Kind() {
	case reflect.String:
		if p := c08String(tn, mn, recv, out.String()); p != "" {
			cw.report(tn, mn, p)
		}
	case reflect.Int:
		if p := c08Int(tn, mn, int(out.Int())); p != "" {
			cw.report(tn, mn, p)
		}
	case reflect.Ptr:
		if out.IsNil() {
			return
		}
		if out.Type() == reflect.TypeOf((*list.List)(nil)) {
			l := out.Interface().(*list.List)
			seen := map[string]bool{}
			for e := l.Front(); e != nil; e = e.Next() {
				ev := reflect.ValueOf(e.Value)
				k := cw.elemKey(ev)
				if seen[k] {
					cw.report(tn, mn, fmt.Sprintf("duplicate list entry %.80s", k))
				}
				seen[k] = true
				if ev.Kind() == reflect.String && ev.String() == "" {
					cw.report(tn, mn, "empty string in list")
				}
				if depth > 0 && ev.IsValid() && isLibType(ev.Type()) && mn != "GetLunar" && mn != "GetSolar" {
					cw.walk(ev, depth-1)
				}
			}
			return
		}
		if isLibType(out.Type()) && depth > 0 && mn != "GetLunar" && mn != "GetSolar" {
			cw.walk(out, depth-1)
		}
	case reflect.Slice, reflect.Array:
		seen := map[string]bool{}
		for i := 0; i < out.Len(); i++ {
			ev := out.Index(i)
			k := cw.elemKey(ev)
			if seen[k] && mn != "GetBaZiWuXing" && mn != "GetBaZiNaYin" && mn != "GetBaZiShiShenGan" && mn != "GetBaZiShiShenZhi" && mn != "GetBaZi" {
				cw.report(tn, mn, fmt.Sprintf("duplicate entry %.80s", k))
			}
			seen[k] = true
			if ev.Kind() == reflect.String {
				if ev.String() == "" {
					cw.report(tn, mn, "empty string in slice")
				} else if strings.Contains(mn, "HideGan") && !vStems[ev.String()] {
					cw.report(tn, mn, fmt.Sprintf("hidden stem %q is not a stem", ev.String()))
				}
			}
			if depth > 0 && ev.Kind() == reflect.Ptr && !ev.IsNil() && isLibType(ev.Type()) {
				cw.walk(ev, depth-1)
			}
		}
	case reflect.Map:
		for _, k := range out.MapKeys() {
			ev := out.MapIndex(k)
			if ev.Kind() == reflect.Ptr && ev.IsNil() {
				cw.report(tn, mn, fmt.Sprintf("nil entry for key %v", k))
			}
		}
	}
}

func (cw *c08Walker) reset() {
	cw.budget = map[string]int{}
	for k, v := range c08Budget {
		cw.budget[k] = v
	}
	cw.seen = map[uintptr]bool{}
}

// c08Root walks everything reachable from one valid moment.
func c08Root(w *W, st ref.Stamp, full bool) {
	key := fmtStamp(st)
	cw := &c08Walker{w: w, root: key}
	wrap := func(what string, f func()) {
		w.Cur("C08 " + what + " at " + key)
		if pv := Call(f); pv != nil {
			w.Violate("total", what+"/"+fmt.Sprint(pv), fmt.Sprintf("%s panicked at root %s: %v", what, key, pv), map[string]string{"root": key})
		}
	}
	// used = fresh: after an object's accessors (and those of what they return) were all called, the object still answers
	// like a freshly built one (no accessor edits what another accessor reads)
	walkStable := func(what string, depth int, mk func() interface{}) {
		o := mk()
		cw.walk(reflect.ValueOf(o), depth)
		if used, fresh := digest1(o), digest1(mk()); used != fresh {
			w.Violate("stable", what+"/"+key, fmt.Sprintf("%s at %s answers differently after all its accessors were called once than a freshly built one: %s", what, key, diffDigests(fresh, used)), map[string]string{"root": key})
		}
	}
	// Solar + Lunar and everything below (EightChar sect 2 by default)
	wrap("Solar", func() { cw.reset(); walkStable("Solar", 1, func() interface{} { return solarOf(st) }) })
	wrap("Lunar", func() {
		cw.reset()
		l := solarOf(st).GetLunar()
		// internal state exposed by accessors is snapshotted before anything else is called on the object
		snap := render(reflect.ValueOf(l.GetJieQiTable()), 0, nil) + render(reflect.ValueOf(l.GetJieQiList()), 0, nil)
		defer func() {
			if now := render(reflect.ValueOf(l.GetJieQiTable()), 0, nil) + render(reflect.ValueOf(l.GetJieQiList()), 0, nil); now != snap {
				w.Violate("stable", "Lunar-table/"+key, fmt.Sprintf("the term table / list exposed by the Lunar at %s changed while its read-only accessors were being called: %s", key, diffDigests(snap, now)), map[string]string{"root": key})
			}
		}()
		before := digest1(l)
		cw.walk(reflect.ValueOf(l), 2)
		// read-only accessors must leave the object as it was: the same accessors give the same values after the full walk
		if after := digest1(l); after != before {
			w.Violate("stable", "Lunar/"+key, fmt.Sprintf("accessors of the Lunar at %s changed after all its accessors (and those of the objects it returns) were called once: %s", key, diffDigests(before, after)), map[string]string{"root": key})
		}
	})
	w.Distinct(2)
	// EightChar under sect 1 (fresh object: SetSect mutates the chart shared through the Lunar)
	wrap("EightChar sect 1", func() {
		cw.reset()
		walkStable("EightChar sect 1", 1, func() interface{} {
			ec := solarOf(st).GetLunar().GetEightChar()
			ec.SetSect(1)
			return ec
		})
	})
	w.Distinct(1)
	// fortunes: 2 genders x 2 schools
	for g := 0; g <= 1; g++ {
		for sect := 1; sect <= 2; sect++ {
			g, sect := g, sect
			wrap(fmt.Sprintf("Yun gender %d sect %d", g, sect), func() {
				cw.reset()
				yun := solarOf(st).GetLunar().GetEightChar().GetYunBySect(g, sect)
				cw.walk(reflect.ValueOf(yun), 0)
				for i, dy := range yun.GetDaYun() {
					if !full && i > 1 && i < 9 {
						continue
					}
					cw.budget["DaYun"] = 1
					cw.walk(reflect.ValueOf(dy), 0)
					lns := dy.GetLiuNian()
					for k, ln := range lns {
						if !full && k > 0 && k < len(lns)-1 {
							continue
						}
						cw.budget["LiuNian"] = 1
						cw.walk(reflect.ValueOf(ln), 0)
						if full || k == 0 {
							for _, lm := range ln.GetLiuYue() {
								cw.budget["LiuYue"] = 1
								cw.walk(reflect.ValueOf(lm), 0)
							}
						}
					}
					xys := dy.GetXiaoYun()
					for k, xy := range xys {
						if !full && k > 0 && k < len(xys)-1 {
							continue
						}
						cw.budget["XiaoYun"] = 1
						cw.walk(reflect.ValueOf(xy), 0)
					}
				}
			})
			w.Distinct(1)
		}
	}
	// lunar year / month objects
	wrap("LunarYear/LunarMonth", func() {
		cw.reset()
		l := solarOf(st).GetLunar()
		// (these two are handed out from the year cache: the "fresh" one is built after a cache reset)
		walkStable("LunarYear", 1, func() interface{} { calendar.VerifResetCache(); return calendar.NewLunarYear(l.GetYear()) })
		// the month of the root and a second month of the same lunar year (the year walk above spends its month budget on
		// the first entries of the table, which belong to the previous lunar year)
		cw.budget["LunarMonth"] = 1
		walkStable("LunarMonth", 1, func() interface{} {
			calendar.VerifResetCache()
			return calendar.NewLunarMonthFromYm(l.GetYear(), l.GetMonth())
		})
		cw.budget["LunarMonth"] = 1
		walkStable("LunarMonth", 1, func() interface{} {
			calendar.VerifResetCache()
			return calendar.NewLunarMonthFromYm(l.GetYear(), 1+(st.D+st.H)%12)
		})
	})
	// civil units
	for start := 0; start < 7; start++ {
		start := start
		wrap(fmt.Sprintf("SolarWeek start %d", start), func() {
			cw.reset()
			cw.budget["Solar"] = 0
			walkStable(fmt.Sprintf("SolarWeek start %d", start), 1, func() interface{} { return calendar.NewSolarWeekFromYmd(st.Y, st.M, st.D, start) })
		})
		w.Distinct(1)
	}
	wrap("SolarMonth/Season/HalfYear/Year", func() {
		cw.reset()
		cw.budget["Solar"] = 0
		walkStable("SolarMonth", 1, func() interface{} { return calendar.NewSolarMonthFromYm(st.Y, st.M) })
		walkStable("SolarSeason", 1, func() interface{} { return calendar.NewSolarSeasonFromYm(st.Y, st.M) })
		walkStable("SolarHalfYear", 1, func() interface{} { return calendar.NewSolarHalfYearFromYm(st.Y, st.M) })
		walkStable("SolarYear", 1, func() interface{} { return calendar.NewSolarYearFromYear(st.Y) })
	})
	if h := HolidayUtil.GetHolidayByYmd(st.Y, st.M, st.D); h != nil {
		wrap("Holiday", func() { cw.reset(); cw.walk(reflect.ValueOf(h), 0) })
	}
	// order independence: each accessor asked first on a fresh object answers as on the fully used one (a third of the roots)
	if full || (st.D+st.H+st.Mi)%3 == 0 {
		first := func(what string, mk func() interface{}) {
			wrap("first-call "+what, func() {
				for _, d := range firstCallDiffs(mk) {
					w.Violate("stable", "first-call/"+what+"/"+strings.SplitN(d, " ", 2)[0], fmt.Sprintf("%s at %s: %s", what, key, d), map[string]string{"root": key})
				}
				w.Eval(1)
			})
		}
		first("Solar", func() interface{} { return solarOf(st) })
		first("Lunar", func() interface{} { return solarOf(st).GetLunar() })
		first("EightChar", func() interface{} { return solarOf(st).GetLunar().GetEightChar() })
		first("LunarTime", func() interface{} { return solarOf(st).GetLunar().GetTime() })
		first("Tao", func() interface{} { return solarOf(st).GetLunar().GetTao() })
		first("Foto", func() interface{} { return solarOf(st).GetLunar().GetFoto() })
		first("Yun", func() interface{} { return solarOf(st).GetLunar().GetEightChar().GetYunBySect(st.S%2, 1+st.Mi%2) })
		first("DaYun", func() interface{} {
			return solarOf(st).GetLunar().GetEightChar().GetYunBySect(st.S%2, 1+st.Mi%2).GetDaYun()[1+st.D%8]
		})
		first("SolarWeek", func() interface{} { return calendar.NewSolarWeekFromYmd(st.Y, st.M, st.D, st.D%7) })
		first("SolarMonth", func() interface{} { return calendar.NewSolarMonthFromYm(st.Y, st.M) })
		first("LunarMonth", func() interface{} {
			l := solarOf(st).GetLunar()
			calendar.VerifResetCache()
			return calendar.NewLunarMonthFromYm(l.GetYear(), l.GetMonth())
		})
		first("LunarYear", func() interface{} {
			l := solarOf(st).GetLunar()
			calendar.VerifResetCache()
			return calendar.NewLunarYear(l.GetYear())
		})
		w.Count("first-call-order-checks", 1)
	}
	w.Eval(cw.calls)
	w.Count("accessor-calls", cw.calls)
	w.Count("root-moments", 1)
}

func c08Run(w *W, c Case) {
	if c.K == "fixed" {
		fixed := []ref.Stamp{{Y: 1, M: 1, D: 1}, {Y: 9998, M: 12, D: 31, H: 23, Mi: 59, S: 59}, {Y: 1582, M: 10, D: 4, H: 23}, {Y: 1582, M: 10, D: 15},
			{Y: 15, M: 12, D: 30, H: 12}, {Y: 15, M: 12, D: 31, H: 23, Mi: 30}, {Y: 18, M: 12, D: 27}, {Y: 18, M: 12, D: 31, H: 23, Mi: 59, S: 59},
			{Y: 2000, M: 2, D: 29, H: 12}, {Y: 2024, M: 2, D: 29, H: 23, Mi: 1}, {Y: 2023, M: 10, D: 1, H: 8}, {Y: 2020, M: 1, D: 24, H: 23, Mi: 59},
			{Y: 9, M: 1, D: 14}, {Y: 237, M: 2, D: 11}, {Y: 2033, M: 12, D: 25, H: 1}, {Y: 2024, M: 4, D: 4, H: 15, Mi: 2, S: 3}}
		// one recorded holiday of each name in use, and the first and last record of the table (whatever indexes a name list
		// or walks the packed table gets its extreme values here)
		seen := map[string]bool{}
		var lastRec *ref.Stamp
		for y := 2001; y <= 2030; y++ {
			for e := HolidayUtil.GetHolidaysByYear(y).Front(); e != nil; e = e.Next() {
				h := e.Value.(*HolidayUtil.Holiday)
				var hy, hm, hd int
				if n, _ := fmt.Sscanf(h.GetDay(), "%d-%d-%d", &hy, &hm, &hd); n == 3 && ref.Exists(hy, hm, hd) {
					st := ref.Stamp{Y: hy, M: hm, D: hd, H: 12}
					lastRec = &st
					if !seen[h.GetName()] {
						seen[h.GetName()] = true
						fixed = append(fixed, st)
					}
				}
			}
		}
		if lastRec != nil {
			fixed = append(fixed, *lastRec)
		}
		for _, st := range fixed {
			c08Root(w, st, true)
		}
		// constructors that read the clock: whatever today is, the objects must be total and well-formed
		cw := &c08Walker{w: w, root: "time.Now()"}
		for s := 0; s < 7; s++ {
			s := s
			if pv := Call(func() { cw.reset(); cw.budget["Solar"] = 0; cw.walk(reflect.ValueOf(calendar.NewSolarWeek(s)), 1) }); pv != nil {
				w.Violatef("total", fmt.Sprintf("NewSolarWeek(%d)/%v", s, pv), "NewSolarWeek(%d) walk panicked: %v", s, pv)
			}
		}
		if pv := Call(func() {
			cw.reset()
			cw.budget["Solar"] = 0
			cw.walk(reflect.ValueOf(calendar.NewSolarMonth()), 1)
			cw.walk(reflect.ValueOf(calendar.NewSolarSeason()), 1)
			cw.walk(reflect.ValueOf(calendar.NewSolarHalfYear()), 1)
			cw.walk(reflect.ValueOf(calendar.NewSolarYear()), 1)
		}); pv != nil {
			w.Violatef("total", fmt.Sprintf("clock-constructors/%v", pv), "clock-based unit constructors panicked: %v", pv)
		}
		w.Eval(cw.calls)
		w.Sample("fixed", fmtStamp(fixed[5]))
		return
	}
	y := c.A[0]
	w.Class(fmt.Sprintf("year/century%02d", y/100))
	rng := w.Rng
	var roots []ref.Stamp
	// (a) seeded day at a boundary time
	j := ref.JDN(y, 1, 1) + rng.Intn(ref.DaysInYear(y))
	cy, cm, cd := ref.FromJDN(j)
	t := T0[rng.Intn(len(T0))]
	roots = append(roots, ref.Stamp{Y: cy, M: cm, D: cd, H: t[0], Mi: t[1], S: t[2]})
	// (b) a solar-term day at 23:30 and the term instant itself
	base := calendar.NewSolarFromYmd(y, 6, 15).GetLunar()
	tbl := base.GetJieQiTable()
	k := termKeys31[2+rng.Intn(23)]
	if e := tbl[k]; e != nil && e.GetYear() == y {
		roots = append(roots, ref.Stamp{Y: y, M: e.GetMonth(), D: e.GetDay(), H: 23, Mi: 30})
		if !w.Quick || y%3 == 0 {
			roots = append(roots, stampOf(e))
		}
	}
	// (c) a leap-month day if the lunar year has one, else lunar New Year
	ly := calendar.NewLunarYear(y)
	ms := tableMonths(ly, true)
	var pick *mrec
	for i := range ms {
		if ms[i].month < 0 {
			pick = &ms[i]
		}
	}
	if pick == nil && len(ms) > 0 {
		pick = &ms[0]
	}
	if pick != nil {
		dy, dm, dd := ref.FromJDN(pick.jdn + rng.Intn(pick.days))
		if dy >= minYear && dy <= maxYear {
			roots = append(roots, ref.Stamp{Y: dy, M: dm, D: dd, H: rng.Intn(24), Mi: rng.Intn(60), S: rng.Intn(60)})
		}
	}
	// (d) the last day of the lunar year, (e) a fixed-festival-rich lunar day (1/1, 1/15, 7/15, 12/8 ...)
	if len(ms) > 0 {
		last := ms[len(ms)-1]
		dy, dm, dd := ref.FromJDN(last.jdn + last.days - 1)
		if dy >= minYear && dy <= maxYear && (!w.Quick || y%2 == 0) {
			roots = append(roots, ref.Stamp{Y: dy, M: dm, D: dd, H: 12})
		}
		fm := [][2]int{{1, 1}, {1, 15}, {4, 8}, {7, 15}, {12, 8}, {2, 19}, {5, 5}, {10, 15}}[rng.Intn(8)]
		for _, m := range ms {
			if m.month == fm[0] && fm[1] <= m.days {
				dy, dm, dd := ref.FromJDN(m.jdn + fm[1] - 1)
				if dy >= minYear && dy <= maxYear && (!w.Quick || y%2 == 1) {
					roots = append(roots, ref.Stamp{Y: dy, M: dm, D: dd, H: 23, Mi: 0, S: 0})
				}
			}
		}
	}
	// (f) 29 February in leap years (year stepping from a leap day), (g) a late-rat-hour moment on the day whose
	// pillar index is y mod 60, so that over the sampled years every day pillar is walked at 23:xx
	if ref.IsLeap(y) && (!w.Quick || y%2 == 0) {
		roots = append(roots, ref.Stamp{Y: y, M: 2, D: 29, H: 9 + y%12, Mi: 10})
	}
	{
		j0 := ref.JDN(y, 3, 1) + rng.Intn(200)
		j0 += modI(y%60-ref.DayPair(j0), 60)
		gy, gm, gd := ref.FromJDN(j0)
		if gy == y {
			roots = append(roots, ref.Stamp{Y: gy, M: gm, D: gd, H: 23, Mi: rng.Intn(60), S: rng.Intn(60)})
		}
	}
	// (h) the Lichun day before the Lichun instant (the three year conventions and the exact month differ there)
	if e := tbl["立春"]; e != nil && e.GetYear() == y {
		roots = append(roots, ref.Stamp{Y: y, M: e.GetMonth(), D: e.GetDay(), H: 0, Mi: 0, S: 30})
	}
	// (i) near the 1582 switch: days-of-month 5..14, which month/year stepping can carry into the gap
	if y >= 1570 && y <= 1583 {
		for m := 1; m <= 12; m++ {
			if y == 1582 && m == 10 {
				continue // those days do not exist
			}
			roots = append(roots, ref.Stamp{Y: y, M: m, D: 5 + rng.Intn(10)}, ref.Stamp{Y: y, M: m, D: 5 + rng.Intn(10), H: 23, Mi: 30})
		}
	}
	// (j) the first weeks of the civil year (usually still the previous lunar year): one seeded day in 1..20 January; where the
	// lunar New Year itself falls before 21 January or in the previous December (the lunar year runs ahead of the civil
	// year), every third day of January
	roots = append(roots, ref.Stamp{Y: y, M: 1, D: 1 + rng.Intn(20), H: rng.Intn(24), Mi: rng.Intn(60)})
	if l := calendar.NewSolarFromYmd(y, 1, 20).GetLunar(); l.GetYear() >= y {
		for d := 1; d <= 19; d += 3 {
			roots = append(roots, ref.Stamp{Y: y, M: 1, D: d, H: 8 + d%12})
		}
		w.Count("years-whose-lunar-year-leads-in-january", 1)
	}
	// (l) the last days of December (in the Julian centuries and the far future the next year's first terms already fall there)
	roots = append(roots, ref.Stamp{Y: y, M: 12, D: 31, H: 12}, ref.Stamp{Y: y, M: 12, D: 26 + rng.Intn(5), H: rng.Intn(24), Mi: rng.Intn(60)})
	// (k) the first and last three years of the range get a root every ninth day (index arithmetic on year numbers is
	// most fragile where year - 4, year / 60 and the like change sign or run off a table)
	if y <= 3 || y >= maxYear-2 {
		for jj := ref.JDN(y, 1, 1) + rng.Intn(9); jj <= ref.JDN(y, 12, 31); jj += 9 {
			dy, dm, dd := ref.FromJDN(jj)
			roots = append(roots, ref.Stamp{Y: dy, M: dm, D: dd, H: jj % 24, Mi: 30})
		}
	}
	if !w.Quick {
		for i := 0; i < 4; i++ {
			st := randStamp(rng)
			st.Y = y
			if !ref.Exists(st.Y, st.M, st.D) {
				st.D = 1
			}
			roots = append(roots, st)
		}
	}
	for i, st := range roots {
		if !st.Valid() {
			continue // never hand the library a date that does not exist
		}
		c08Root(w, st, i == 0 && y%10 == 0)
	}
	if y == 2024 {
		var rs []string
		for _, st := range roots {
			rs = append(rs, fmtStamp(st))
		}
		sort.Strings(rs)
		w.Sample("year", map[string]interface{}{"year": y, "roots": rs})
	}
}

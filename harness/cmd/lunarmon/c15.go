package main

// C15 - civil weeks / months / seasons / half-years / years partition time and navigate back.
// Oracle: a JDN-based week model on RefCal.

import (
	"container/list"
	"fmt"

	"github.com/6tail/lunar-go/SolarUtil"
	"github.com/6tail/lunar-go/calendar"
	"lunarmon/ref"
)

func init() {
	register(&Prop{
		ID:   "C15",
		Rule: "cases: one civil year each; for every day and all seven first weekdays the week (first day, seven days, days in month, first day in month, index in month, index in year) is compared with the JDN week model; for every month and first weekday the week list, the reported number of weeks and the day list; seasons / half-years / years: member months, index; navigation: Next(n) then Next(-n) for months, seasons, half-years, years and weeks (both modes), Next(n,false) = 7n days, Next(n,true) = n positions along (month, week 1..k),(next month, week 1..) generated from the model, for n in +-{1..10, 52, 53, 100} on a rotating subset. distinct_nontrivial counts distinct (day, first weekday) pairs plus navigation cases.",
		Assumptions: []string{
			"RefCal weekday (JDN+1 mod 7), existing days only (21 in October 1582)",
			"a week's index in a month/year is 1 + the number of week-start days after the first day of the month/year up to the date",
		},
		Gen: c15Gen, Run: c15Run,
		BlockKind: "year", BlockQuick: [2]int{8, 8}, BlockThorough: [2]int{0, 25},
		Exhaustive: func(tier string) bool { return false },
		MinEvals:   map[string]int64{"quick": 2000000, "thorough": 100000000},
		Chunks:     128,
	})
}

func c15Gen(g *Gen) []Case {
	if g.Quick {
		return yearCases("year", sampleYears(g.Rng, 600, true))
	}
	return yearCases("year", allYears())
}

func weekFirst(jdn, start int) int { return jdn - modI(ref.Weekday(jdn)-start, 7) }

// weeksInMonth: number of distinct weeks (with the given first weekday) meeting the month.
func weeksInMonth(y, m, start int) int {
	a := weekFirst(ref.JDN(y, m, 1), start)
	b := weekFirst(ref.JDN(y, m, ref.LastDayOfMonth(y, m)), start)
	return (b-a)/7 + 1
}

func weekIndexInMonth(y, m, d, start int) int {
	return (weekFirst(ref.JDN(y, m, d), start)-weekFirst(ref.JDN(y, m, 1), start))/7 + 1
}

func solarList(l *list.List) []string {
	var out []string
	for e := l.Front(); e != nil; e = e.Next() {
		if s, ok := e.Value.(*calendar.Solar); ok {
			out = append(out, s.ToYmd())
		} else {
			out = append(out, fmt.Sprintf("%T", e.Value))
		}
	}
	return out
}

var c15Ns = []int{1, 2, 3, 4, 5, 6, 7, 8, 9, 10, 52, 53, 100}

func c15Run(w *W, c Case) {
	y := c.A[0]
	w.Class(fmt.Sprintf("century%02d", y/100))
	historyTouch(w, y)
	if y%2 == 1 && y+1 <= maxYear {
		// units of the following year are used first
		for s := 0; s < 7; s++ {
			calendar.NewSolarMonthFromYm(y+1, 1+s).GetWeeks(s)
			calendar.NewSolarWeekFromYmd(y+1, 1+s, 8, s).Next(-3, true)
		}
	}
	rng := w.Rng
	jan1 := ref.JDN(y, 1, 1)
	for j := jan1; j <= ref.JDN(y, 12, 31); j++ {
		cy, cm, cd := ref.FromJDN(j)
		for start := 0; start < 7; start++ {
			key := fmt.Sprintf("%s/start%d", ymd(cy, cm, cd), start)
			w.Cur("C15 week " + key)
			wk := calendar.NewSolarWeekFromYmd(cy, cm, cd, start)
			f := weekFirst(j, start)
			fy, fm, fd := ref.FromJDN(f)
			if f >= ref.MinJDN {
				if got := wk.GetFirstDay().ToYmd(); got != ymd(fy, fm, fd) {
					w.Violatef("week-first", key, "week of %s starting on weekday %d: GetFirstDay=%s, model %s", ymd(cy, cm, cd), start, got, ymd(fy, fm, fd))
				}
				var wantDays, wantIn []string
				for k := 0; k < 7; k++ {
					dy, dm, dd := ref.FromJDN(f + k)
					wantDays = append(wantDays, ymd(dy, dm, dd))
					if dm == cm {
						wantIn = append(wantIn, ymd(dy, dm, dd))
					}
				}
				if got := solarList(wk.GetDays()); fmt.Sprint(got) != fmt.Sprint(wantDays) {
					w.Violatef("week-days", key, "GetDays=%v, model %v", got, wantDays)
				}
				var gotIn []string
				if pv := Call(func() { gotIn = solarList(wk.GetDaysInMonth()) }); pv != nil {
					w.Violatef("week-days", key+"/inmonth", "GetDaysInMonth panicked: %v", pv)
				} else if fmt.Sprint(gotIn) != fmt.Sprint(wantIn) {
					w.Violatef("week-days", key+"/inmonth", "GetDaysInMonth=%v, model %v", gotIn, wantIn)
				}
				if fdm := wk.GetFirstDayInMonth(); fdm == nil || fdm.ToYmd() != wantIn[0] {
					w.Violatef("week-days", key+"/firstinmonth", "GetFirstDayInMonth=%v, model %s", fdm, wantIn[0])
				}
				// the answers do not depend on what the same object was asked before: the seven days again after the in-month
				// questions, and (weeks that straddle a month end) every accessor asked twice, the second round on the used object
				if got := solarList(wk.GetDays()); fmt.Sprint(got) != fmt.Sprint(wantDays) {
					w.Violatef("week-days", key+"/again", "GetDays asked again after GetDaysInMonth=%v, model %v", got, wantDays)
				}
				if len(wantIn) < 7 && start == (j+cm)%7 {
					if a, b := digest1(wk), digest1(calendar.NewSolarWeekFromYmd(cy, cm, cd, start)); a != b {
						w.Violatef("week-days", key+"/used-object", "the used week object answers differently from a fresh one: %s", diffDigests(b, a))
					}
				}
				w.Eval(5)
			}
			wi := weekIndexInMonth(cy, cm, cd, start)
			if got := wk.GetIndex(); got != wi {
				w.Violatef("week-index", key, "GetIndex=%d, %d week starts have passed in the month so the index is %d", got, wi-1, wi)
			}
			wiy := (f-weekFirst(jan1, start))/7 + 1
			if got := wk.GetIndexInYear(); got != wiy {
				w.Violatef("week-index", key+"/year", "GetIndexInYear=%d, model %d", got, wiy)
			}
			w.Eval(2)
			w.Distinct(1)
			// navigation on a rotating subset
			if (j+start)%9 == 0 {
				n := c15Ns[rng.Intn(len(c15Ns))]
				if rng.Intn(2) == 0 {
					n = -n
				}
				if (j+start)%63 == 0 {
					// very large plain steps (hundreds of years), both signs
					for _, big := range []int{1000, -1000, 25000, -25000, 60000, -60000} {
						if j+7*big < ref.MinJDN+7 || j+7*big > ref.MaxJDN-7 {
							continue
						}
						r := wk.Next(big, false)
						ey, em, ed := ref.FromJDN(j + 7*big)
						if r.GetYear() != ey || r.GetMonth() != em || r.GetDay() != ed {
							w.Violatef("week-next", fmt.Sprintf("%s%+d/plain", key, big), "Next(%d,false) from %s = %d-%d-%d, 7n days later is %s", big, ymd(cy, cm, cd), r.GetYear(), r.GetMonth(), r.GetDay(), ymd(ey, em, ed))
						}
						w.Eval(1)
					}
				}
				if j+7*n >= ref.MinJDN+7 && j+7*n <= ref.MaxJDN-7 {
					nk := fmt.Sprintf("%s%+d", key, n)
					w.Cur("C15 week nav " + nk)
					// plain mode: 7n days
					r := wk.Next(n, false)
					ey, em, ed := ref.FromJDN(j + 7*n)
					if r.GetYear() != ey || r.GetMonth() != em || r.GetDay() != ed {
						w.Violatef("week-next", nk+"/plain", "Next(%d,false) from %s = %d-%d-%d, 7n days later is %s", n, ymd(cy, cm, cd), r.GetYear(), r.GetMonth(), r.GetDay(), ymd(ey, em, ed))
					}
					if b := r.Next(-n, false); b.GetYear() != cy || b.GetMonth() != cm || b.GetDay() != cd {
						w.Violatef("week-next", nk+"/plain-undo", "Next(%d,false).Next(%d,false) from %s = %d-%d-%d", n, -n, ymd(cy, cm, cd), b.GetYear(), b.GetMonth(), b.GetDay())
					}
					// month-separated mode: n positions along (month, week 1..k)
					ty, tm, ti := cy, cm, wi
					for s := 0; s < absInt(n); s++ {
						if n > 0 {
							ti++
							if ti > weeksInMonth(ty, tm, start) {
								ti = 1
								tm++
								if tm > 12 {
									tm, ty = 1, ty+1
								}
							}
						} else {
							ti--
							if ti < 1 {
								tm--
								if tm < 1 {
									tm, ty = 12, ty-1
								}
								ti = weeksInMonth(ty, tm, start)
							}
						}
					}
					if ty >= minYear && ty <= maxYear {
						var rs *calendar.SolarWeek
						if pv := Call(func() { rs = wk.Next(n, true) }); pv != nil {
							w.Violatef("week-next-separate", nk, "Next(%d,true) from %s (start %d) panicked: %v", n, ymd(cy, cm, cd), start, pv)
						} else {
							if rs.GetYear() != ty || rs.GetMonth() != tm || rs.GetIndex() != ti {
								w.Violatef("week-next-separate", nk, "Next(%d,true) from (%d-%02d, week %d; first weekday %d) = (%d-%02d, week %d) [%d-%d-%d], the sequence model says (%d-%02d, week %d)", n, cy, cm, wi, start, rs.GetYear(), rs.GetMonth(), rs.GetIndex(), rs.GetYear(), rs.GetMonth(), rs.GetDay(), ty, tm, ti)
							}
							var bk *calendar.SolarWeek
							if pv := Call(func() { bk = rs.Next(-n, true) }); pv != nil {
								w.Violatef("week-next-separate", nk+"/undo", "Next(%d,true).Next(%d,true) panicked: %v", n, -n, pv)
							} else if bk.GetYear() != cy || bk.GetMonth() != cm || bk.GetIndex() != wi {
								w.Violatef("week-next-separate", nk+"/undo", "Next(%d,true).Next(%d,true) from (%d-%02d, week %d; first weekday %d) = (%d-%02d, week %d)", n, -n, cy, cm, wi, start, bk.GetYear(), bk.GetMonth(), bk.GetIndex())
							}
						}
						w.Count("separate-month-walks", 1)
					}
					w.Eval(4)
					w.Distinct(1)
				}
			}
		}
	}
	// months
	for m := 1; m <= 12; m++ {
		sm := calendar.NewSolarMonthFromYm(y, m)
		key := fmt.Sprintf("%04d-%02d", y, m)
		w.Cur("C15 month " + key)
		var wantDays []string
		for d := 1; d <= 31; d++ {
			if ref.Exists(y, m, d) {
				wantDays = append(wantDays, ymd(y, m, d))
			}
		}
		if got := solarList(sm.GetDays()); fmt.Sprint(got) != fmt.Sprint(wantDays) {
			w.Violatef("month-days", key, "GetDays lists %d days %v..., model has %d", len(got), got[:minI(3, len(got))], len(wantDays))
		}
		for start := 0; start < 7; start++ {
			wantN := weeksInMonth(y, m, start)
			if got := SolarUtil.GetWeeksOfMonth(y, m, start); got != wantN {
				w.Violatef("month-weeks", fmt.Sprintf("%s/start%d/count", key, start), "GetWeeksOfMonth(%d,%d,%d)=%d, the month meets %d weeks", y, m, start, got, wantN)
			}
			if weekFirst(ref.JDN(y, m, 1), start) < ref.MinJDN {
				continue
			}
			wl := sm.GetWeeks(start)
			var gotFirst, wantFirst []string
			for e := wl.Front(); e != nil; e = e.Next() {
				gotFirst = append(gotFirst, e.Value.(*calendar.SolarWeek).GetFirstDay().ToYmd())
			}
			f0 := weekFirst(ref.JDN(y, m, 1), start)
			for k := 0; k < wantN; k++ {
				fy, fm, fd := ref.FromJDN(f0 + 7*k)
				wantFirst = append(wantFirst, ymd(fy, fm, fd))
			}
			if fmt.Sprint(gotFirst) != fmt.Sprint(wantFirst) {
				w.Violatef("month-weeks", fmt.Sprintf("%s/start%d", key, start), "GetWeeks(%d) of %s has weeks starting %v, the distinct weeks meeting the month start %v", start, key, gotFirst, wantFirst)
			}
			w.Eval(2)
		}
		// month / season / half-year / year navigation
		n := rng.Intn(4001) - 2000
		t := y*12 + m - 1 + n
		ty, tm := floorDivI(t, 12), modI(t, 12)+1
		r := sm.Next(n)
		if r.GetYear() != ty || r.GetMonth() != tm {
			w.Violatef("month-next", fmt.Sprintf("%s%+d", key, n), "SolarMonth(%s).Next(%d) = %d-%d, model %d-%d", key, n, r.GetYear(), r.GetMonth(), ty, tm)
		}
		if b := r.Next(-n); b.GetYear() != y || b.GetMonth() != m {
			w.Violatef("month-next", fmt.Sprintf("%s%+d/undo", key, n), "SolarMonth(%s).Next(%d).Next(%d) = %d-%d", key, n, -n, b.GetYear(), b.GetMonth())
		}
		ss := calendar.NewSolarSeasonFromYm(y, m)
		hy := calendar.NewSolarHalfYearFromYm(y, m)
		if ss.GetIndex() != (m-1)/3+1 || hy.GetIndex() != (m-1)/6+1 {
			w.Violatef("unit-index", key, "season index %d / half-year index %d for month %d", ss.GetIndex(), hy.GetIndex(), m)
		}
		chkMonths := func(what string, l *list.List, first, count int) {
			var got []string
			for e := l.Front(); e != nil; e = e.Next() {
				mo := e.Value.(*calendar.SolarMonth)
				got = append(got, fmt.Sprintf("%d-%d", mo.GetYear(), mo.GetMonth()))
			}
			var want []string
			for k := 0; k < count; k++ {
				want = append(want, fmt.Sprintf("%d-%d", y, first+k))
			}
			if fmt.Sprint(got) != fmt.Sprint(want) {
				w.Violatef("unit-months", key+"/"+what, "%s containing %s lists months %v, model %v", what, key, got, want)
			}
		}
		chkMonths("season", ss.GetMonths(), (m-1)/3*3+1, 3)
		chkMonths("half-year", hy.GetMonths(), (m-1)/6*6+1, 6)
		k := rng.Intn(401) - 200
		if r := ss.Next(k).Next(-k); r.GetYear() != y || r.GetIndex() != ss.GetIndex() {
			w.Violatef("unit-next", fmt.Sprintf("%s/season%+d", key, k), "season Next(%d).Next(%d) = %d.%d", k, -k, r.GetYear(), r.GetIndex())
		}
		if r := ss.Next(k); r.GetYear()*4+r.GetIndex()-1 != y*4+ss.GetIndex()-1+k {
			w.Violatef("unit-next", fmt.Sprintf("%s/season%+d/abs", key, k), "season %d.%d Next(%d) = %d.%d", y, ss.GetIndex(), k, r.GetYear(), r.GetIndex())
		}
		if r := hy.Next(k); r.GetYear()*2+r.GetIndex()-1 != y*2+hy.GetIndex()-1+k {
			w.Violatef("unit-next", fmt.Sprintf("%s/half%+d/abs", key, k), "half-year %d.%d Next(%d) = %d.%d", y, hy.GetIndex(), k, r.GetYear(), r.GetIndex())
		}
		if r := hy.Next(k).Next(-k); r.GetYear() != y || r.GetIndex() != hy.GetIndex() {
			w.Violatef("unit-next", fmt.Sprintf("%s/half%+d", key, k), "half-year Next(%d).Next(%d) = %d.%d", k, -k, r.GetYear(), r.GetIndex())
		}
		w.Eval(10)
		w.Distinct(1)
	}
	sy := calendar.NewSolarYearFromYear(y)
	var got []string
	for e := sy.GetMonths().Front(); e != nil; e = e.Next() {
		mo := e.Value.(*calendar.SolarMonth)
		got = append(got, fmt.Sprintf("%d-%d", mo.GetYear(), mo.GetMonth()))
	}
	if len(got) != 12 || got[0] != fmt.Sprintf("%d-1", y) || got[11] != fmt.Sprintf("%d-12", y) {
		w.Violatef("unit-months", fmt.Sprintf("%d/year", y), "SolarYear(%d).GetMonths()=%v", y, got)
	}
	if r := sy.Next(7).Next(-7); r.GetYear() != y {
		w.Violatef("unit-next", fmt.Sprintf("%d/year", y), "SolarYear Next(7).Next(-7) = %d", r.GetYear())
	}
	w.Eval(2)
	if y == 1582 {
		w.Sample("year", map[string]interface{}{"year": 1582, "october_days": 21, "october_weeks_start_monday": weeksInMonth(1582, 10, 1)})
	}
}

func minI(a, b int) int {
	if a < b {
		return a
	}
	return b
}

package main

// C17 - Taoist / Buddhist dates are the lunar date with a fixed year offset, and round-trip.

import (
	"fmt"
	"strings"

	"github.com/6tail/lunar-go/FotoUtil"
	"github.com/6tail/lunar-go/TaoUtil"
	"github.com/6tail/lunar-go/calendar"
	"lunarmon/ref"
)

func init() {
	register(&Prop{
		ID:   "C17",
		Rule: "cases: one civil year each; every day (all days of boundary years and of the thorough tier, every 3rd day plus every leap-month day otherwise) at a rotating boundary time: Taoist year = lunar year + 2697, Buddhist year = lunar year + 544, month/day equal; NewTao/NewFoto(+FromYmd) built from the reported numbers give the same moment and report the numbers given; every day-class predicate is recomputed from (signed lunar month, day, day pillar, the day's term) with the published lists read from the exported tables, and fed to functional-dependency monitors keyed by exactly those inputs; festival lists are compared with the tables. distinct_nontrivial counts distinct civil days judged.",
		Assumptions: []string{
			"published day lists (TaoUtil / FotoUtil exported tables) are open data read at run time; the monitor judges which inputs select them",
			"the lunar date, day pillar and the day's term come from the Lunar (validated by C01/C05/C03)",
		},
		Gen: c17Gen, Run: c17Run,
		BlockKind: "year", BlockQuick: [2]int{8, 8}, BlockThorough: [2]int{0, 25},
		Exhaustive: func(tier string) bool { return tier == "thorough" },
		MinEvals:   map[string]int64{"quick": 500000, "thorough": 50000000},
		Chunks:     128,
	})
}

func c17Gen(g *Gen) []Case {
	if g.Quick {
		return yearCases("year", sampleYears(g.Rng, 300, true))
	}
	return yearCases("year", allYears())
}

func inList(k string, l []string) bool {
	for _, v := range l {
		if v == k {
			return true
		}
	}
	return false
}

func c17Run(w *W, c Case) {
	y := c.A[0]
	w.Class(fmt.Sprintf("century%02d", y/100))
	historyTouch(w, y)
	by := isBoundaryYear(y)
	tbl := calendar.NewSolarFromYmd(y, 6, 15).GetLunar().GetJieQiTable()
	termOn := map[int]string{}
	for i, k := range termKeys31 {
		if e := tbl[k]; e != nil {
			j := ref.JDN(e.GetYear(), e.GetMonth(), e.GetDay())
			if _, ok := termOn[j]; !ok {
				termOn[j] = termCN31[i]
			}
		}
	}
	for j := ref.JDN(y, 1, 1); j <= ref.JDN(y, 12, 31); j++ {
		cy, cm, cd := ref.FromJDN(j)
		t := T0[(j+y)%len(T0)]
		st := ref.Stamp{Y: cy, M: cm, D: cd, H: t[0], Mi: t[1], S: t[2]}
		if j%7 == 0 {
			distract(st, j/7)
		}
		l := solarOf(st).GetLunar()
		if w.Quick && !by && !w.InBlock && j%3 != 0 && l.GetMonth() > 0 {
			continue
		}
		key := fmtStamp(st)
		w.Cur("C17 day " + key)
		ly, lm, ld := l.GetYear(), l.GetMonth(), l.GetDay()
		tao, foto := l.GetTao(), l.GetFoto()
		if tao.GetYear() != ly+2697 || tao.GetMonth() != lm || tao.GetDay() != ld {
			w.Violatef("tao-offset", key, "%s is lunar %d-%d-%d but Taoist %d-%d-%d (expected year %d)", key, ly, lm, ld, tao.GetYear(), tao.GetMonth(), tao.GetDay(), ly+2697)
		}
		if foto.GetYear() != ly+544 || foto.GetMonth() != lm || foto.GetDay() != ld {
			w.Violatef("foto-offset", key, "%s is lunar %d-%d-%d but Buddhist %d-%d-%d (expected year %d)", key, ly, lm, ld, foto.GetYear(), foto.GetMonth(), foto.GetDay(), ly+544)
		}
		// the wrapping constructors called directly are the same objects as the ones the Lunar hands out
		if j%5 == 0 {
			if a, b := digest1(calendar.NewTaoFromLunar(l)), digest1(tao); a != b {
				w.Violatef("tao-offset", key+"/fromlunar", "NewTaoFromLunar of the Lunar at %s differs from its GetTao(): %s", key, diffDigests(b, a))
			}
			if a, b := digest1(calendar.NewFotoFromLunar(l)), digest1(foto); a != b {
				w.Violatef("foto-offset", key+"/fromlunar", "NewFotoFromLunar of the Lunar at %s differs from its GetFoto(): %s", key, diffDigests(b, a))
			}
			w.Eval(2)
		}
		// order independence on the Taoist / Buddhist objects: each accessor asked first on a fresh object answers as on the
		// used one (leap-month days always: signs are easy to lose there)
		if lm < 0 || j%11 == 0 {
			for _, d := range firstCallDiffs(func() interface{} { return solarOf(st).GetLunar().GetTao() }) {
				w.Violatef("predicate", "order/Tao."+strings.SplitN(d, " ", 2)[0]+"@"+key, "Tao at %s: %s", key, d)
			}
			for _, d := range firstCallDiffs(func() interface{} { return solarOf(st).GetLunar().GetFoto() }) {
				w.Violatef("predicate", "order/Foto."+strings.SplitN(d, " ", 2)[0]+"@"+key, "Foto at %s: %s", key, d)
			}
			w.Eval(2)
		}
		// round trip through the constructors with the numbers reported
		var t2 *calendar.Tao
		var f2 *calendar.Foto
		if pv := Call(func() { t2 = calendar.NewTao(tao.GetYear(), tao.GetMonth(), tao.GetDay(), st.H, st.Mi, st.S) }); pv != nil {
			w.Violatef("tao-roundtrip", key, "NewTao(%d,%d,%d,..) built from the Taoist date of %s panicked: %v", tao.GetYear(), tao.GetMonth(), tao.GetDay(), key, pv)
		} else if stampOf(t2.GetLunar().GetSolar()) != st || t2.GetYear() != tao.GetYear() || t2.GetMonth() != lm || t2.GetDay() != ld {
			w.Violatef("tao-roundtrip", key, "NewTao(%d,%d,%d,..) is civil %s and reports %d-%d-%d; the Taoist date came from %s", tao.GetYear(), tao.GetMonth(), tao.GetDay(), t2.GetLunar().GetSolar().ToYmdHms(), t2.GetYear(), t2.GetMonth(), t2.GetDay(), key)
		}
		if pv := Call(func() { f2 = calendar.NewFoto(foto.GetYear(), foto.GetMonth(), foto.GetDay(), st.H, st.Mi, st.S) }); pv != nil {
			w.Violatef("foto-roundtrip", key, "NewFoto(%d,%d,%d,..) built from the Buddhist date of %s panicked: %v", foto.GetYear(), foto.GetMonth(), foto.GetDay(), key, pv)
		} else if stampOf(f2.GetLunar().GetSolar()) != st || f2.GetYear() != foto.GetYear() || f2.GetMonth() != lm || f2.GetDay() != ld {
			w.Violatef("foto-roundtrip", key, "NewFoto(%d,%d,%d,..) is civil %s and reports %d-%d-%d; the Buddhist date came from %s", foto.GetYear(), foto.GetMonth(), foto.GetDay(), f2.GetLunar().GetSolar().ToYmdHms(), f2.GetYear(), f2.GetMonth(), f2.GetDay(), key)
		}
		if j%7 == 0 {
			ty := calendar.NewTaoFromYmd(ly+2697, lm, ld)
			fy := calendar.NewFotoFromYmd(ly+544, lm, ld)
			if ty.GetLunar().GetSolar().ToYmdHms() != ymd(cy, cm, cd)+" 00:00:00" || fy.GetLunar().GetSolar().ToYmdHms() != ymd(cy, cm, cd)+" 00:00:00" {
				w.Violatef("tao-roundtrip", key+"/fromymd", "NewTaoFromYmd / NewFotoFromYmd of lunar %d-%d-%d give %s / %s", ly, lm, ld, ty.GetLunar().GetSolar().ToYmdHms(), fy.GetLunar().GetSolar().ToYmdHms())
			}
		}
		w.Eval(4)
		// predicates from their definitions
		md := fmt.Sprintf("%d-%d", lm, ld)
		am := absInt(lm)
		amd := fmt.Sprintf("%d-%d", am, ld)
		pillar := ref.Pair60(ref.DayPair(j))
		stem, branch := ref.Stems[ref.DayPair(j)%10], ref.Branches[ref.DayPair(j)%12]
		term := termOn[j]
		_, baJie := TaoUtil.BA_JIE[term]
		_, baHui := TaoUtil.BA_HUI[pillar]
		mingWu := stem == "戊"
		anWu := branch == TaoUtil.AN_WU[am-1]
		type pred struct {
			name      string
			got, want bool
			fdKey     string
		}
		mlen := 0
		if ld >= 28 {
			// read off the year's month table (validated by C06), not through the by-year-and-month lookup the predicate itself uses
			for e := calendar.NewLunarYear(ly).GetMonths().Front(); e != nil; e = e.Next() {
				if mn := e.Value.(*calendar.LunarMonth); mn.GetYear() == ly && mn.GetMonth() == lm {
					mlen = mn.GetDayCount()
				}
			}
		}
		six := ld == 8 || ld == 14 || ld == 15 || ld == 23 || ld == 29 || ld == 30 || (ld == 28 && mlen != 30)
		ten := ld == 1 || ld == 8 || ld == 14 || ld == 15 || ld == 18 || ld == 23 || ld == 24 || ld == 28 || ld == 29 || ld == 30
		yangGong := false
		for _, f := range FotoUtil.FESTIVAL[amd] {
			if len(f) > 0 && f[0] == "杨公忌" {
				yangGong = true
			}
		}
		preds := []pred{
			{"Tao.IsDaySanHui", tao.IsDaySanHui(), inList(md, TaoUtil.SAN_HUI), md},
			{"Tao.IsDaySanYuan", tao.IsDaySanYuan(), inList(md, TaoUtil.SAN_YUAN), md},
			{"Tao.IsDayWuLa", tao.IsDayWuLa(), inList(md, TaoUtil.WU_LA), md},
			{"Tao.IsDayBaJie", tao.IsDayBaJie(), baJie, term},
			{"Tao.IsDayBaHui", tao.IsDayBaHui(), baHui, pillar},
			{"Tao.IsDayMingWu", tao.IsDayMingWu(), mingWu, stem},
			{"Tao.IsDayAnWu", tao.IsDayAnWu(), anWu, fmt.Sprintf("%d/%s", am, branch)},
			{"Tao.IsDayWu", tao.IsDayWu(), mingWu || anWu, fmt.Sprintf("%d/%s", am, pillar)},
			{"Foto.IsMonthZhai", foto.IsMonthZhai(), lm == 1 || lm == 5 || lm == 9, fmt.Sprint(lm)},
			{"Foto.IsDayZhaiShuoWang", foto.IsDayZhaiShuoWang(), ld == 1 || ld == 15, fmt.Sprint(ld)},
			{"Foto.IsDayZhaiSix", foto.IsDayZhaiSix(), six, fmt.Sprintf("%d/len%d", ld, mlen)},
			{"Foto.IsDayZhaiTen", foto.IsDayZhaiTen(), ten, fmt.Sprint(ld)},
			{"Foto.IsDayZhaiGuanYin", foto.IsDayZhaiGuanYin(), inList(md, FotoUtil.DAY_ZHAI_GUAN_YIN), md},
			{"Foto.IsDayYangGong", foto.IsDayYangGong(), yangGong, amd},
		}
		for _, p := range preds {
			if p.got != p.want {
				w.Violatef("predicate", p.name+"@"+key, "%s at %s (lunar %d-%d-%d, day %s, term %q, month length %d) = %v, its definition gives %v", p.name, key, ly, lm, ld, pillar, term, mlen, p.got, p.want)
			}
			w.FD("fd/"+p.name, p.fdKey, fmt.Sprint(p.got), key)
			w.Eval(1)
		}
		// the day classes are defined on the civil day's pillar: switching the eight-character chart of the same Lunar to the
		// early-rat convention must not move any of them (checked at the late-rat hour, where the conventions differ)
		if st.H == 23 {
			before := fmt.Sprint(tao.IsDaySanHui(), tao.IsDaySanYuan(), tao.IsDayWuLa(), tao.IsDayBaJie(), tao.IsDayBaHui(), tao.IsDayMingWu(), tao.IsDayAnWu(), tao.IsDayWu(), listStrings(tao.GetFestivals()), foto.IsDayYangGong(), foto.IsDayZhaiSix(), foto.GetXiu())
			l.GetEightChar().SetSect(1)
			after := fmt.Sprint(tao.IsDaySanHui(), tao.IsDaySanYuan(), tao.IsDayWuLa(), tao.IsDayBaJie(), tao.IsDayBaHui(), tao.IsDayMingWu(), tao.IsDayAnWu(), tao.IsDayWu(), listStrings(tao.GetFestivals()), foto.IsDayYangGong(), foto.IsDayZhaiSix(), foto.GetXiu())
			l.GetEightChar().SetSect(2)
			if before != after {
				w.Violatef("predicate", "sect-dependence@"+key, "Taoist/Buddhist day classes at %s change when the Lunar's eight-character chart is switched to sect 1: %s -> %s", key, before, after)
			}
			w.Eval(1)
			w.Count("late-rat-hour-sect-switches", 1)
		}
		if got, want := foto.GetXiu(), FotoUtil.XIU_27[(FotoUtil.XIU_OFFSET[am-1]+ld-1)%27]; got != want {
			w.Violatef("predicate", "Foto.GetXiu@"+key, "Foto.GetXiu at lunar %d-%d = %s, table gives %s", lm, ld, got, want)
		}
		w.FD("fd/Foto.GetXiu", amd, foto.GetXiu(), key)
		// festival lists
		var wantTao []string
		for _, f := range TaoUtil.FESTIVAL[md] {
			wantTao = append(wantTao, f[0])
		}
		if term == "冬至" {
			wantTao = append(wantTao, "元始天尊圣诞")
		} else if term == "夏至" {
			wantTao = append(wantTao, "灵宝天尊圣诞")
		}
		if baJie {
			wantTao = append(wantTao, TaoUtil.BA_JIE[term])
		}
		if baHui {
			wantTao = append(wantTao, TaoUtil.BA_HUI[pillar])
		}
		if got := listStrings(tao.GetFestivals()); strings.Join(got, "|") != strings.Join(wantTao, "|") {
			w.Violatef("festivals", "tao@"+key, "Tao.GetFestivals at %s (lunar %s, term %q, day %s) = %v, tables give %v", key, md, term, pillar, got, wantTao)
		}
		// full renderings (name + remark / result): TaoFestival.ToFullString, FotoFestival.ToFullString
		var wantTaoFull, gotTaoFull []string
		for _, f := range TaoUtil.FESTIVAL[md] {
			s := f[0]
			if len(f) > 1 && f[1] != "" {
				s += "[" + f[1] + "]"
			}
			wantTaoFull = append(wantTaoFull, s)
		}
		for e := tao.GetFestivals().Front(); e != nil; e = e.Next() {
			gotTaoFull = append(gotTaoFull, e.Value.(*calendar.TaoFestival).ToFullString())
		}
		if len(gotTaoFull) < len(wantTaoFull) || strings.Join(gotTaoFull[:len(wantTaoFull)], "|") != strings.Join(wantTaoFull, "|") {
			w.Violatef("festivals", "tao-full@"+key, "Tao festival full strings at lunar %s = %v, table gives %v first", md, gotTaoFull, wantTaoFull)
		}
		var wantFotoFull, gotFotoFull []string
		for _, f := range FotoUtil.FESTIVAL[amd] {
			s := f[0]
			if len(f) > 1 && f[1] != "" {
				s += " " + f[1]
			}
			if len(f) > 3 && f[3] != "" {
				s += " " + f[3]
			}
			wantFotoFull = append(wantFotoFull, s)
		}
		for e := foto.GetFestivals().Front(); e != nil; e = e.Next() {
			ff := e.Value.(*calendar.FotoFestival)
			gotFotoFull = append(gotFotoFull, ff.ToFullString())
		}
		if strings.Join(gotFotoFull, "|") != strings.Join(wantFotoFull, "|") {
			w.Violatef("festivals", "foto-full@"+key, "Foto festival full strings at lunar %s = %v, table gives %v", amd, gotFotoFull, wantFotoFull)
		}
		var wantFoto []string
		for _, f := range FotoUtil.FESTIVAL[amd] {
			wantFoto = append(wantFoto, f[0])
		}
		if got := listStrings(foto.GetFestivals()); strings.Join(got, "|") != strings.Join(wantFoto, "|") {
			w.Violatef("festivals", "foto@"+key, "Foto.GetFestivals at %s (lunar %s) = %v, table gives %v", key, md, got, wantFoto)
		}
		if got := listStrings(foto.GetOtherFestivals()); strings.Join(got, "|") != strings.Join(FotoUtil.OTHER_FESTIVAL[md], "|") {
			w.Violatef("festivals", "foto-other@"+key, "Foto.GetOtherFestivals at %s (lunar %s) = %v, table gives %v", key, md, got, FotoUtil.OTHER_FESTIVAL[md])
		}
		w.Eval(4)
		w.Distinct(1)
		if lm < 0 {
			w.Count("leap-month-days", 1)
		}
		if ly > cy {
			w.Count("lead-days", 1)
		}
		if ly < cy {
			w.Count("days-before-lunar-new-year", 1)
		}
	}
	if y == 2024 {
		w.Sample("year", map[string]interface{}{"year": y, "tao_year_of_lunar_2024": 2024 + 2697, "foto_year_of_lunar_2024": 2024 + 544})
	}
}

package main

func c09ChildMain(args []string) int { return 2 }

package main

// C16 - nine-star values cycle by their classical step rules and stay in range.

import (
	"fmt"

	"github.com/6tail/lunar-go/calendar"
	"lunarmon/ref"
)

func init() {
	register(&Prop{
		ID:   "C16",
		Rule: "cases: one civil year each; every day (at a rotating boundary time, plus Jie/Lichun instants +-1s and 23:30) is judged: year star = (2 - (Y'-2024)) mod 9 with Y' from each of the three year conventions (C05's reference), month star = classical (year-branch group, month branch) table under each convention and stepping -1 at each Jie, day star counted up from the jiazi day nearest the winter solstice and down from the one nearest the summer solstice (a tie at exactly 30 days is accepted either way), hour star from the day-branch group and solstice half moving one per two-hour slot (all 12 slots on a rotating subset of days), every index in 0..8, every naming getter indexing its table at GetIndex(), LunarYear / LunarMonth / LunarTime stars equal to the corresponding rule. distinct_nontrivial counts distinct moments judged.",
		Assumptions: []string{
			"solstice and Jie days/instants are read from the object's term table (C03); year conventions as in C05's reference",
			"month star table: years 子午卯酉 start the 寅 month at star 8, 辰戌丑未 at 5, 寅申巳亥 at 2, each following month one less",
		},
		Gen: c16Gen, Run: c16Run,
		BlockKind: "year", BlockQuick: [2]int{8, 8}, BlockThorough: [2]int{0, 25},
		Exhaustive: func(tier string) bool { return tier == "thorough" },
		MinEvals:   map[string]int64{"quick": 500000, "thorough": 30000000},
		Chunks:     128,
	})
}

func c16Gen(g *Gen) []Case {
	cs := []Case{{K: "names"}}
	if g.Quick {
		return append(cs, yearCases("year", sampleYears(g.Rng, 250, true))...)
	}
	return append(cs, yearCases("year", allYears())...)
}

func nearestJiazi(jdn int) []int {
	p := ref.DayPair(jdn)
	switch {
	case p < 30:
		return []int{jdn - p}
	case p > 30:
		return []int{jdn + 60 - p}
	}
	return []int{jdn + 30, jdn - 30} // tie: both accepted (the library takes the later one)
}

var monthStarFirst = []int{7, 4, 1} // index (0-based) of the 寅 month's star by year branch mod 3

func monthStarIdx(yearBranch, monthBranch int) int {
	k := modI(monthBranch-2, 12)
	return modI(monthStarFirst[yearBranch%3]-k, 9)
}

func yearStarIdx(y int) int { return modI(2-(y-2024), 9) }

func c16Names(w *W) {
	for i := 0; i < 9; i++ {
		ns := calendar.NewNineStar(i)
		got := []string{ns.GetNumber(), ns.GetColor(), ns.GetWuXing(), ns.GetPosition(), ns.GetNameInXuanKong(), ns.GetNameInBeiDou(), ns.GetNameInQiMen(), ns.GetNameInTaiYi(), ns.GetLuckInQiMen(), ns.GetLuckInXuanKong(), ns.GetYinYangInQiMen(), ns.GetTypeInTaiYi(), ns.GetBaMenInQiMen(), ns.GetSongInTaiYi()}
		want := []string{calendar.NUMBER[i], calendar.COLOR[i], calendar.WU_XING[i], calendar.POSITION[i], calendar.NAME_XUAN_KONG[i], calendar.NAME_BEI_DOU[i], calendar.NAME_QI_MEN[i], calendar.NAME_TAI_YI[i], calendar.LUCK_QI_MEN[i], calendar.LUCK_XUAN_KONG[i], calendar.YIN_YANG_QI_MEN[i], calendar.TYPE_TAI_YI[i], calendar.BA_MEN_QI_MEN[i], calendar.SONG_TAI_YI[i]}
		if fmt.Sprint(got) != fmt.Sprint(want) || ns.GetIndex() != i {
			w.Violatef("naming", fmt.Sprintf("star%d", i), "NewNineStar(%d): naming getters %v do not index their tables at %d", i, got, i)
		}
		if ns.GetNumber() != cnNum[i+1] {
			w.Violatef("naming", fmt.Sprintf("star%d/number", i), "star index %d is numbered %s", i, ns.GetNumber())
		}
		w.Eval(15)
		w.Distinct(1)
	}
	for _, n := range [][]string{calendar.NUMBER, calendar.COLOR, calendar.WU_XING, calendar.POSITION, calendar.NAME_XUAN_KONG, calendar.NAME_BEI_DOU, calendar.NAME_QI_MEN, calendar.NAME_TAI_YI, calendar.LUCK_QI_MEN, calendar.LUCK_XUAN_KONG, calendar.YIN_YANG_QI_MEN, calendar.TYPE_TAI_YI, calendar.BA_MEN_QI_MEN, calendar.SONG_TAI_YI} {
		if len(n) != 9 {
			w.Violatef("naming", "table-length", "a nine-star naming table has %d entries", len(n))
		}
	}
}

func c16Run(w *W, c Case) {
	if c.K == "names" {
		c16Names(w)
		return
	}
	y := c.A[0]
	w.Class(fmt.Sprintf("century%02d", y/100))
	historyTouch(w, y)
	tbl := calendar.NewSolarFromYmd(y, 6, 15).GetLunar().GetJieQiTable()
	dj := func(k string) int { e := tbl[k]; return ref.JDN(e.GetYear(), e.GetMonth(), e.GetDay()) }
	w0s := nearestJiazi(dj("冬至"))
	ss := nearestJiazi(dj("夏至"))
	w1s := nearestJiazi(dj("DONG_ZHI"))
	var sprev []int
	if y > minYear {
		pt := calendar.NewSolarFromYmd(y-1, 6, 15).GetLunar().GetJieQiTable()
		e := pt["夏至"]
		sprev = nearestJiazi(ref.JDN(e.GetYear(), e.GetMonth(), e.GetDay()))
	}
	winter0, summer, winter1 := dj("冬至"), dj("夏至"), dj("DONG_ZHI")
	dayStar := func(j int) map[int]bool {
		ok := map[int]bool{}
		for _, w0 := range w0s {
			for _, s := range ss {
				for _, w1 := range w1s {
					switch {
					case j >= w1:
						ok[(j-w1)%9] = true
					case j >= s:
						ok[8-(j-s)%9] = true
					case j >= w0:
						ok[(j-w0)%9] = true
					default:
						if sprev == nil {
							ok[-1] = true // year 1: previous summer solstice is outside the supported range
						}
						for _, sp := range sprev {
							ok[8-(j-sp)%9] = true
						}
					}
				}
			}
		}
		return ok
	}
	lo := ref.Stamp{Y: y, M: 1, D: 1}.Secs()
	hi := ref.Stamp{Y: y, M: 12, D: 31, H: 23, Mi: 59, S: 59}.Secs()
	nJudge := 0
	judge := func(t int64, class string, allSlots bool) {
		if t < lo || t > hi {
			return
		}
		st := ref.FromSecs(t)
		key := fmtStamp(st)
		w.Cur("C16 moment " + key)
		if nJudge++; nJudge%9 == 0 {
			distract(st, nJudge/9)
		}
		l := solarOf(st).GetLunar()
		rp, e := c05Reference(st, l)
		if e != "" {
			w.Violatef("table", key, "%s", e)
			return
		}
		j := ref.JDN(st.Y, st.M, st.D)
		// year star under the three conventions
		yPrime := [3]int{l.GetYear(), st.Y, st.Y}
		if rp.beforeLC[0] {
			yPrime[1]--
		}
		if rp.beforeLC[1] {
			yPrime[2]--
		}
		for sect := 1; sect <= 3; sect++ {
			got := l.GetYearNineStarBySect(sect).GetIndex()
			if want := yearStarIdx(yPrime[sect-1]); got != want {
				w.Violatef("year-star", fmt.Sprintf("%s/sect%d", key, sect), "year star (convention %d) at %s is index %d, year %d gives %d (2024 = star three, one back per year)", sect, key, got, yPrime[sect-1], want)
			}
		}
		if l.GetYearNineStar().GetIndex() != l.GetYearNineStarBySect(2).GetIndex() {
			w.Violatef("year-star", key+"/default", "GetYearNineStar differs from BySect(2) at %s", key)
		}
		if got, want := calendar.NewLunarYear(l.GetYear()).GetNineStar().GetIndex(), yearStarIdx(l.GetYear()); got != want {
			w.Violatef("year-star", key+"/lunaryear", "LunarYear(%d).GetNineStar index %d, rule gives %d", l.GetYear(), got, want)
		}
		// month star
		yb := [3]int{rp.year[0] % 12, rp.year[1] % 12, rp.year[2] % 12}
		mb := [3]int{rp.month[0] % 12, rp.month[0] % 12, rp.month[1] % 12}
		for sect := 1; sect <= 3; sect++ {
			got := l.GetMonthNineStarBySect(sect).GetIndex()
			if want := monthStarIdx(yb[sect-1], mb[sect-1]); got != want {
				w.Violatef("month-star", fmt.Sprintf("%s/sect%d", key, sect), "month star (convention %d) at %s is index %d, table(year branch %s, month branch %s) gives %d", sect, key, got, ref.Branches[yb[sect-1]], ref.Branches[mb[sect-1]], want)
			}
		}
		if l.GetMonthNineStar().GetIndex() != l.GetMonthNineStarBySect(2).GetIndex() {
			w.Violatef("month-star", key+"/default", "GetMonthNineStar differs from BySect(2) at %s", key)
		}
		if lm := calendar.NewLunarMonthFromYm(l.GetYear(), l.GetMonth()); lm != nil {
			want := monthStarIdx(ref.YearPair(l.GetYear())%12, (absInt(l.GetMonth())+1)%12)
			if got := lm.GetNineStar().GetIndex(); got != want {
				w.Violatef("month-star", key+"/lunarmonth", "LunarMonth(%d,%d).GetNineStar index %d, table gives %d", l.GetYear(), l.GetMonth(), got, want)
			}
		}
		// day star
		gd := l.GetDayNineStar().GetIndex()
		if ok := dayStar(j); !ok[gd] && !ok[-1] {
			w.Violatef("day-star", ymd(st.Y, st.M, st.D), "day star of %s is index %d; counting from the jiazi days nearest the solstices gives %v", ymd(st.Y, st.M, st.D), gd, ok)
		}
		// the stars are no matter of the chart's day-boundary convention: at 23:xx, switching the Lunar's chart to sect 1
		// leaves all four where they were
		if st.H == 23 {
			stars := func() string {
				return fmt.Sprint(l.GetYearNineStar().GetIndex(), l.GetMonthNineStar().GetIndex(), l.GetDayNineStar().GetIndex(), l.GetTimeNineStar().GetIndex(), l.GetTime().GetNineStar().GetIndex())
			}
			before := stars()
			l.GetEightChar().SetSect(1)
			after := stars()
			l.GetEightChar().SetSect(2)
			if before != after {
				w.Violatef("hour-star", key+"/sect-switch", "year/month/day/hour/hour-object star indices at %s are %s, and %s after the Lunar's chart was switched to sect 1", key, before, after)
			}
			w.Eval(1)
		}
		// hour star(s)
		asc := (j >= winter0 && j < summer) || j >= winter1
		db := ref.DayPair(j) % 12
		var start int
		switch db % 3 {
		case 0: // 子午卯酉
			start = map[bool]int{true: 0, false: 8}[asc]
		case 1: // 丑辰未戌
			start = map[bool]int{true: 3, false: 5}[asc]
		default: // 寅巳申亥
			start = map[bool]int{true: 6, false: 2}[asc]
		}
		hourIdx := func(h int) int {
			slot := ref.HourBranch(h)
			if asc {
				return modI(start+slot, 9)
			}
			return modI(start-slot, 9)
		}
		if got, want := l.GetTimeNineStar().GetIndex(), hourIdx(st.H); got != want {
			w.Violatef("hour-star", key, "hour star at %s is index %d, rule (day branch %s, ascending=%v) gives %d", key, got, ref.Branches[db], asc, want)
		}
		if got := l.GetTime().GetNineStar().GetIndex(); got != hourIdx(st.H) {
			w.Violatef("hour-star", key+"/time-object", "LunarTime star at %s is index %d, rule gives %d", key, got, hourIdx(st.H))
		}
		for _, ix := range []int{gd, l.GetTimeNineStar().GetIndex(), l.GetYearNineStar().GetIndex(), l.GetMonthNineStar().GetIndex()} {
			if ix < 0 || ix > 8 {
				w.Violatef("range", key, "a star index at %s is %d", key, ix)
			}
		}
		w.Eval(14)
		if allSlots {
			for h := 0; h < 24; h += 1 {
				if h%2 == 0 && h != 0 {
					continue
				}
				lh := calendar.NewSolar(st.Y, st.M, st.D, h, 30, 0).GetLunar()
				if got, want := lh.GetTimeNineStar().GetIndex(), hourIdx(h); got != want {
					w.Violatef("hour-star", fmt.Sprintf("%s/h%d", ymd(st.Y, st.M, st.D), h), "hour star at %s %02d:30 is index %d, rule gives %d", ymd(st.Y, st.M, st.D), h, got, want)
				}
				w.Eval(1)
			}
			w.Count("days-with-all-slots", 1)
		}
		w.Distinct(1)
		w.Count(class, 1)
	}
	for j := ref.JDN(y, 1, 1); j <= ref.JDN(y, 12, 31); j++ {
		t := T0[(j+y)%len(T0)]
		nearSolstice := absInt(j-summer) <= 1 || absInt(j-winter1) <= 1 || absInt(j-winter0) <= 1
		judge(int64(j)*86400+int64(t[0]*3600+t[1]*60+t[2]), "walk-moments", j%10 == 0 || nearSolstice)
	}
	for p := 2; p <= 24; p += 2 {
		if e := tbl[termKeys31[p]]; e != nil {
			js := stampOf(e).Secs()
			d0 := js / 86400 * 86400
			for _, t := range []int64{js - 1, js, d0, d0 + 23*3600 + 1800} {
				judge(t, "jie-moments", false)
			}
		}
	}
	if m1 := calendar.NewLunarYear(y).GetMonth(1); m1 != nil {
		j := int64(m1.GetFirstJulianDay() + 0.5)
		judge((j-1)*86400+43200, "new-year-moments", false)
		judge(j*86400, "new-year-moments", false)
	}
	if len(w0s) > 1 || len(ss) > 1 || len(w1s) > 1 {
		w.Count("years-with-a-30-day-tie", 1)
	}
	if (ss[0]-w0s[0])%9 != 0 || (w1s[0]-ss[0])%9 != 0 {
		w.Count("years-with-anchors-not-180-days-apart", 1)
	}
	if y == 2024 {
		a, b, cc := ref.FromJDN(w0s[0])
		w.Sample("year", map[string]interface{}{"year": y, "ascending_from": ymd(a, b, cc), "year_star_index": yearStarIdx(2024)})
	}
}

package main

// C01 - civil <-> lunar conversion is an order-preserving bijection that round-trips.

import (
	"fmt"

	"github.com/6tail/lunar-go/calendar"
	"lunarmon/ref"
)

var c01Steps = []int{0, 1, -1, 2, -2, 6, -6, 7, -7, 28, -28, 29, -29, 30, -30, 31, -31, 59, -59, 60, -60, 354, -354, 355, -355, 365, -365, 366, -366, 384, -384, 3652, -3652, 36525, -36525, 1000000, -1000000}

func init() {
	register(&Prop{
		ID:   "C01",
		Rule: "cases: one civil year each; every day of the year is converted (Solar->Lunar->Solar and Lunar(y,m,d,t)->Solar->Lunar) at a time of day rotating through the boundary times T0, the lunar keys of successive days must be successive (same month day+1, or day 1 of the month LunarMonth.Next(1) names after the last day of the previous one), the reflective digest of all zero-argument Lunar accessors must agree between the two construction paths, and Lunar.Next(n) must equal the conversion of JDN+n. distinct_nontrivial counts distinct civil days judged; a day is non-trivial because its expected lunar key is derived from its predecessor and the month table, not fixed by construction.",
		Assumptions: []string{
			"RefCal integer JDN model for day stepping",
			"which lunar date a day maps to is decided by C02/C06; C01 judges self-consistency (bijection, order, path independence)",
		},
		Gen: c01Gen, Run: c01Run,
		BlockKind: "year", BlockQuick: [2]int{6, 6}, BlockThorough: [2]int{0, 25},
		Exhaustive: func(tier string) bool { return tier == "thorough" },
		MinEvals:   map[string]int64{"quick": 300000, "thorough": 10000000},
		Chunks:     128,
	})
}

func c01Gen(g *Gen) []Case {
	if g.Quick {
		return append(yearCases("year", sampleYears(g.Rng, 150, true)), yearCases("seam", allYears())...)
	}
	return yearCases("year", allYears())
}

type lkey struct{ y, m, d int }

func keyOf(l *calendar.Lunar) lkey { return lkey{l.GetYear(), l.GetMonth(), l.GetDay()} }

func isBoundaryYear(y int) bool {
	for _, b := range boundaryYears() {
		if b == y {
			return true
		}
	}
	return false
}

func c01Run(w *W, c Case) {
	y := c.A[0]
	w.Class(fmt.Sprintf("century%02d", y/100))
	if c.K != "seam" {
		historyTouch(w, y)
	}
	by := isBoundaryYear(y)
	digestEvery := 5
	if !w.Quick && !by {
		digestEvery = 20
	}
	j0 := ref.JDN(y, 1, 1)
	j1 := ref.JDN(y, 12, 31)
	if c.K == "seam" {
		// every year's turn: 20 December to 25 February, where the two directions of the conversion read the tables
		// of two different years (round trips, successor and stepping only; the accessor digests are left to the
		// sampled whole years)
		by, digestEvery = false, 1<<30
		j0 = ref.JDN(y, 12, 20)
		j1 = j0 + 67
		if j1 > ref.MaxJDN {
			j1 = ref.MaxJDN
		}
		w.Class("year-turns")
	}
	var prev *calendar.Lunar
	if y > minYear || c.K == "seam" {
		py, pm, pd := ref.FromJDN(j0 - 1)
		prev = calendar.NewSolarFromYmd(py, pm, pd).GetLunar()
	}
	leapSeen := false
	for j := j0; j <= j1; j++ {
		cy, cm, cd := ref.FromJDN(j)
		t := T0[(j+y)%len(T0)]
		st := ref.Stamp{Y: cy, M: cm, D: cd, H: t[0], Mi: t[1], S: t[2]}
		key := fmtStamp(st)
		w.Cur("C01 day " + key)
		if j%13 == 0 {
			distract(st, j/13)
		}
		s := solarOf(st)
		l := s.GetLunar()
		k := keyOf(l)
		// (i) round trip civil -> lunar -> civil
		if back := stampOf(l.GetSolar()); back != st {
			w.Violatef("roundtrip-civil", key, "Solar(%s).GetLunar().GetSolar() = %s", key, fmtStamp(back))
		}
		if k.m == 0 || k.d == 0 || k.m > 12 || k.m < -12 || k.d > 30 {
			w.Violatef("fallthrough", key, "Solar(%s).GetLunar() = lunar %d-%d-%d (no month of the year table contains the day)", key, k.y, k.m, k.d)
			prev = l
			continue
		}
		if l.GetHour() != st.H || l.GetMinute() != st.Mi || l.GetSecond() != st.S {
			w.Violatef("roundtrip-civil", key+"/time", "lunar of %s carries time %02d:%02d:%02d", key, l.GetHour(), l.GetMinute(), l.GetSecond())
		}
		// round trip lunar -> civil -> lunar through the constructor. Now and then (always in months 11, 12 and leap
		// months) right after an unrelated conversion that leaves the table of the civil year with the lunar year's number
		// cached, having matched one of its leading months, which belong to the lunar year before
		if (c.K != "seam" && (k.m >= 11 || k.m < 0 || j%5 == 0)) || (c.K == "seam" && j%7 == 0) {
			if k.y >= minYear && k.y <= maxYear {
				calendar.NewSolarFromYmd(k.y, 1, 3+j%20).GetLunar()
			}
		}
		var l2 *calendar.Lunar
		if pv := Call(func() { l2 = calendar.NewLunar(k.y, k.m, k.d, st.H, st.Mi, st.S) }); pv != nil {
			w.Violatef("roundtrip-lunar", key, "NewLunar(%d,%d,%d,%02d:%02d:%02d) (lunar date of %s) panicked: %v", k.y, k.m, k.d, st.H, st.Mi, st.S, key, pv)
		} else {
			if got := stampOf(l2.GetSolar()); got != st {
				w.Violatef("roundtrip-lunar", key, "NewLunar(%d,%d,%d,..).GetSolar() = %s, but that lunar date was obtained from %s", k.y, k.m, k.d, fmtStamp(got), key)
			}
			if k3 := keyOf(l2.GetSolar().GetLunar()); k3 != k {
				w.Violatef("roundtrip-lunar", key+"/back", "NewLunar(%d,%d,%d).GetSolar().GetLunar() = %d-%d-%d", k.y, k.m, k.d, k3.y, k3.m, k3.d)
			}
			if keyOf(l2) != k {
				w.Violatef("roundtrip-lunar", key+"/fields", "NewLunar(%d,%d,%d) reports %v", k.y, k.m, k.d, keyOf(l2))
			}
		}
		w.Eval(4)
		// (ii) successor relation
		if prev != nil {
			pk := keyOf(prev)
			ok := false
			why := ""
			if k.y == pk.y && k.m == pk.m && k.d == pk.d+1 {
				ok = true
			} else if k.d == 1 {
				pmn := calendar.NewLunarMonthFromYm(pk.y, pk.m)
				if pmn == nil {
					why = "previous month not in its year table"
				} else {
					nx := pmn.Next(1)
					if pk.d != pmn.GetDayCount() {
						why = fmt.Sprintf("previous day %d is not the last of its %d-day month", pk.d, pmn.GetDayCount())
					} else if nx == nil || nx.GetYear() != k.y || nx.GetMonth() != k.m {
						why = fmt.Sprintf("LunarMonth.Next(1) of %d-%d names %v", pk.y, pk.m, nx)
					} else {
						ok = true
					}
				}
				w.Count("month-starts", 1)
			} else {
				why = "neither the next day of the same month nor a first day"
			}
			if !ok {
				w.Violatef("successor", key, "lunar date of %s is %d-%d-%d but the day before was %d-%d-%d: %s", key, k.y, k.m, k.d, pk.y, pk.m, pk.d, why)
			}
			w.Eval(1)
		}
		// (iii) path independence of every accessor
		special := k.m < 0 || k.d == 1 || k.d >= 29 || (cm == 12 && cd >= 27) || (cm == 1 && cd <= 3)
		if k.m < 0 {
			leapSeen = true
		}
		if l2 != nil && c.K != "seam" && (j%digestEvery == 0 || (special && (by || j%3 == 0))) {
			da, db := digest1(l), digest1(l2)
			if da != db {
				w.Violatef("path-digest", key, "accessors differ between Solar(%s).GetLunar() and NewLunar(%d,%d,%d,..): %s", key, k.y, k.m, k.d, diffDigests(da, db))
			}
			// the third route to the same object: the conversion constructor called directly
			if dc := digest1(calendar.NewLunarFromSolar(s)); dc != da {
				w.Violatef("path-digest", key+"/fromsolar", "accessors differ between Solar(%s).GetLunar() and NewLunarFromSolar of the same Solar: %s", key, diffDigests(da, dc))
			}
			w.Count("digests", 1)
			w.Eval(2)
		}
		// (iv) stepping on the lunar side equals stepping on the civil side
		if j%11 == 0 || (by && j%3 == 0) {
			n := c01Steps[(j/3)%len(c01Steps)]
			if j%2 == 0 {
				n = w.Rng.Intn(4001) - 2000
			}
			if j+n >= ref.MinJDN && j+n <= ref.MaxJDN {
				ey, em, ed := ref.FromJDN(j + n)
				want := ref.Stamp{Y: ey, M: em, D: ed, H: st.H, Mi: st.Mi, S: st.S}
				ln := l.Next(n)
				direct := solarOf(want).GetLunar()
				if stampOf(ln.GetSolar()) != want || keyOf(ln) != keyOf(direct) {
					w.Violatef("lunar-next", fmt.Sprintf("%s%+d", key, n), "Lunar(%s).Next(%d) = lunar %v / civil %s, reference civil %s = lunar %v", key, n, keyOf(ln), ln.GetSolar().ToYmdHms(), fmtStamp(want), keyOf(direct))
				}
				w.Count("steps", 1)
				w.Eval(1)
			}
		}
		// stepping to the end of the lunar month and just past it (and the places where a 29/30-day assumption would put them)
		if k.d >= 26 {
			for _, n := range []int{29 - k.d, 30 - k.d, 31 - k.d} {
				if n <= 0 || j+n > ref.MaxJDN {
					continue
				}
				ey, em, ed := ref.FromJDN(j + n)
				want := ref.Stamp{Y: ey, M: em, D: ed, H: st.H, Mi: st.Mi, S: st.S}
				var ln *calendar.Lunar
				if pv := Call(func() { ln = l.Next(n) }); pv != nil {
					w.Violatef("lunar-next", fmt.Sprintf("%s%+d", key, n), "Lunar(%s = %d-%d-%d).Next(%d) panicked: %v", key, k.y, k.m, k.d, n, pv)
					continue
				}
				direct := solarOf(want).GetLunar()
				if stampOf(ln.GetSolar()) != want || keyOf(ln) != keyOf(direct) {
					w.Violatef("lunar-next", fmt.Sprintf("%s%+d", key, n), "Lunar(%s).Next(%d) = lunar %v / civil %s, reference civil %s = lunar %v", key, n, keyOf(ln), ln.GetSolar().ToYmdHms(), fmtStamp(want), keyOf(direct))
				}
				w.Count("month-end-steps", 1)
				w.Eval(1)
			}
		}
		prev = l
		w.Distinct(1)
	}
	if leapSeen {
		w.Class("has-leap-month-days")
	}
	if y%977 == 0 || y == 1582 {
		w.Sample("year", map[string]interface{}{"year": y, "days": j1 - j0 + 1})
	}
}

package main

// C03 - solar terms are the instants the sun reaches multiples of 15 degrees, in order.

import (
	"fmt"
	"math"
	"sort"
	"strings"

	"github.com/6tail/lunar-go/ShouXingUtil"
	"github.com/6tail/lunar-go/calendar"
	"lunarmon/ref"
)

var termNames24 = []string{"冬至", "小寒", "大寒", "立春", "雨水", "惊蛰", "春分", "清明", "谷雨", "立夏", "小满", "芒种", "夏至", "小暑", "大暑", "立秋", "处暑", "白露", "秋分", "寒露", "霜降", "立冬", "小雪", "大雪"}

// canonical table keys (31 entries: previous Daxue .. next Jingzhe) and their Chinese names
var termKeys31, termCN31 []string

func init() {
	termKeys31 = append(termKeys31, "DA_XUE")
	termCN31 = append(termCN31, "大雪")
	for _, n := range termNames24 {
		termKeys31 = append(termKeys31, n)
		termCN31 = append(termCN31, n)
	}
	termKeys31 = append(termKeys31, "DONG_ZHI", "XIAO_HAN", "DA_HAN", "LI_CHUN", "YU_SHUI", "JING_ZHE")
	termCN31 = append(termCN31, "冬至", "小寒", "大寒", "立春", "雨水", "惊蛰")

	register(&Prop{
		ID:   "C03",
		Rule: "cases: one civil year each. 'table' cases (every year 1..9998): 31 names in canonical order, strictly increasing instants 14.6..15.8 d apart, shared entries of adjacent years identical to the second, residual of the library's own apparent solar longitude at each reported instant (hook) below the Sun's motion in 1.5 seconds, independent low-precision Sun within 20 min for years 1..3000. 'lookup' cases: around every entry J (J-1s, J, J+1s, day start, day end) plus seeded moments, prev/next (JieQi, Jie, Qi, whole-day variants) and the day-name accessors are compared with a sorted-list model of the object's own table. distinct_nontrivial counts distinct (year, entry) pairs plus distinct query moments.",
		Assumptions: []string{
			"hook VerifSaLon is a thin wrapper of the library's full-series apparent solar longitude",
			"RefAstro low-precision Sun (Meeus ch.25) + Espenak-Meeus delta-T resolve 20 minutes for years 1..3000",
		},
		Gen: c03Gen, Run: c03Run,
		BlockKind: "lookup", BlockQuick: [2]int{6, 6}, BlockThorough: [2]int{0, 25},
		Exhaustive: func(tier string) bool { return true },
		MinEvals:   map[string]int64{"quick": 500000, "thorough": 5000000},
		Chunks:     128,
	})
}

func c03Gen(g *Gen) []Case {
	cs := yearCases("table", allYears())
	if g.Quick {
		cs = append(cs, yearCases("lookup", sampleYears(g.Rng, 300, true))...)
	} else {
		cs = append(cs, yearCases("lookup", allYears())...)
	}
	return cs
}

func c03Run(w *W, c Case) {
	switch c.K {
	case "table":
		c03Table(w, c.A[0])
	case "lookup":
		c03Lookup(w, c.A[0])
	}
}

const oneSecondRad = 2 * math.Pi / 365.2422 / 86400

func c03Table(w *W, y int) {
	w.Curf("C03 table %d", y)
	w.Class(fmt.Sprintf("table/century%02d", y/100))
	ly := calendar.NewLunarYear(y)
	jq := ly.GetJieQiJulianDays()
	if len(jq) != 31 {
		w.Violatef("table", fmt.Sprintf("len/%d", y), "year %d has %d term instants, expected 31", y, len(jq))
		return
	}
	l := calendar.NewSolarFromYmd(y, 6, 15).GetLunar()
	names := listStrings(l.GetJieQiList())
	if len(names) != 31 {
		w.Violatef("names", fmt.Sprintf("%d", y), "term list of %d has %d names", y, len(names))
	} else {
		for i := range names {
			if names[i] != termKeys31[i] {
				w.Violatef("names", fmt.Sprintf("%d/%d", y, i), "term list of %d position %d is %q, canonical order has %q", y, i, names[i], termKeys31[i])
				break
			}
		}
	}
	tbl := l.GetJieQiTable()
	if len(tbl) != 31 {
		w.Violatef("names", fmt.Sprintf("%d/table", y), "term table of %d has %d entries", y, len(tbl))
	}
	// delta-T, the one input of the instants that the root-at-hook residual cannot see (the hook uses the same value):
	// the library's own table against the Espenak-Meeus polynomials at four points of the year, where both describe
	// observations (years up to 2000; measured agreement 3 s, limit 10 s)
	if y <= 2000 {
		for q := 0; q < 4; q++ {
			yy := float64(y) + (float64(q)+0.5)/4
			dLib := ShouXingUtil.DtT((yy-2000)*365.2425) * 86400
			dEM := ref.DeltaT(yy)
			if diff := math.Abs(dLib - dEM); diff > 10 {
				w.Violatef("delta-t", fmt.Sprintf("%d/q%d", y, q), "delta-T used for %.3f is %.1f s, the Espenak-Meeus value is %.1f s (%.1f s apart: every term instant of that time is off by as much)", yy, dLib, dEM, diff)
			} else if g, ok := w.R.Extra["max_delta_t_difference_s"].(float64); !ok || diff > g {
				w.R.Extra["max_delta_t_difference_s"] = diff
			}
			w.Eval(1)
		}
	}
	held := append([]float64(nil), jq...)
	var next []float64
	if y < maxYear {
		next = calendar.NewLunarYear(y + 1).GetJieQiJulianDays()
	}
	// a table a caller was handed stays that year's table when other years are computed afterwards
	calendar.NewLunarYear(y - 1)
	for i := range held {
		if jq[i] != held[i] || ly.GetJieQiJulianDays()[i] != held[i] {
			w.Violatef("held-table", fmt.Sprintf("%d/%d", y, i), "the term instants obtained for %d changed after years %d and %d were computed: entry %d was JD %.7f, is now %.7f", y, y+1, y-1, i, held[i], jq[i])
			jq = held
			break
		}
	}
	w.Eval(1)
	var prevSecs int64
	for i := 0; i < 31; i++ {
		key := fmt.Sprintf("%d/%s", y, termKeys31[i])
		w.Curf("C03 entry %s", key)
		s := tbl[termKeys31[i]]
		if s == nil {
			w.Violatef("names", key, "term table of %d lacks %s", y, termKeys31[i])
			continue
		}
		// the table's Solar is the instant rounded to the second
		st := stampOf(s)
		_ = 0
		if math.Abs(float64(st.Secs())-(jq[i]+0.5)*86400) > 0.5005 { // ties at .5 s may round either way
			w.Violatef("table", key+"/solar", "table Solar %s is not the reported instant JD %.7f rounded to the second", fmtStamp(st), jq[i])
		}
		if i > 0 {
			if st.Secs() <= prevSecs {
				w.Violatef("order", key, "instant of %s (%s) is not after the previous entry", termKeys31[i], fmtStamp(st))
			}
			gap := jq[i] - jq[i-1]
			if gap < 14.6 || gap > 15.8 {
				w.Violatef("gap", key, "gap before %s is %.4f days", termKeys31[i], gap)
			}
			if g, ok := w.R.Extra["max_gap_days"].(float64); !ok || gap > g {
				w.R.Extra["max_gap_days"] = gap
			}
			if g, ok := w.R.Extra["min_gap_days"].(float64); !ok || gap < g {
				w.R.Extra["min_gap_days"] = gap
			}
		}
		prevSecs = st.Secs()
		// adjacent-year overlap
		if next != nil && i >= 24 {
			if math.Abs(next[i-24]-jq[i])*86400 > 0.001 {
				w.Violatef("overlap", key, "year %d entry %s = JD %.7f but year %d entry %s = JD %.7f", y, termKeys31[i], jq[i], y+1, termKeys31[i-24], next[i-24])
			}
			w.Eval(1)
		}
		// root at hook: the library's own longitude at the reported instant
		target := math.Mod(255+15*float64(i), 360)
		tDays := jq[i] - 2451545 - 1.0/3
		tt := tDays + ShouXingUtil.DtT(tDays)
		lon := ShouXingUtil.VerifSaLon(tt / 36525)
		res := math.Mod(lon-target*math.Pi/180, 2*math.Pi)
		if res > math.Pi {
			res -= 2 * math.Pi
		}
		if res < -math.Pi {
			res += 2 * math.Pi
		}
		if math.Abs(res) > 1.5*oneSecondRad {
			w.Violatef("root", key, "at the reported instant of %s (%s) the library's own apparent solar longitude is %.3e rad (%.1f s of solar motion) from %g deg", termKeys31[i], fmtStamp(st), res, res/oneSecondRad, target)
		}
		if g, ok := w.R.Extra["max_root_residual_s"].(float64); !ok || math.Abs(res)/oneSecondRad > g {
			w.R.Extra["max_root_residual_s"] = math.Abs(res) / oneSecondRad
		}
		// independent Sun
		if y <= 3000 {
			d := ref.AngDiff(ref.SunLonAtLocal(jq[i]), target)
			mins := d / ref.DegPerMinute
			if math.Abs(mins) > 20 {
				w.Violatef("indep-sun", key, "independent Sun at the reported instant of %s (%s) is %.1f minutes of solar motion from %g deg", termKeys31[i], fmtStamp(st), mins, target)
			}
			if g, ok := w.R.Extra["max_indep_residual_min"].(float64); !ok || math.Abs(mins) > g {
				w.R.Extra["max_indep_residual_min"] = math.Abs(mins)
			}
			w.Eval(1)
		}
		w.Eval(4)
		w.Distinct(1)
	}
	if y == 2024 {
		w.Sample("table", map[string]interface{}{"year": y, "qingming": fmtStamp(stampOf(tbl["清明"])), "entries": 31})
	}
}

// c03TermDigest: everything a Lunar reports about solar terms, rendered.
func c03TermDigest(l *calendar.Lunar) string {
	jq := func(j *calendar.JieQi) string {
		if j == nil {
			return "nil"
		}
		return j.GetName() + "@" + j.GetSolar().ToYmdHms()
	}
	parts := []string{"GetPrevJieQi=" + jq(l.GetPrevJieQi()), "GetNextJieQi=" + jq(l.GetNextJieQi()), "GetPrevJie=" + jq(l.GetPrevJie()), "GetNextJie=" + jq(l.GetNextJie()),
		"GetPrevQi=" + jq(l.GetPrevQi()), "GetNextQi=" + jq(l.GetNextQi()), "GetPrevJieQiByWholeDay=" + jq(l.GetPrevJieQiByWholeDay(true)), "GetNextJieQiByWholeDay=" + jq(l.GetNextJieQiByWholeDay(true)),
		"GetPrevJieByWholeDay=" + jq(l.GetPrevJieByWholeDay(true)), "GetNextQiByWholeDay=" + jq(l.GetNextQiByWholeDay(true)), "GetCurrentJieQi=" + jq(l.GetCurrentJieQi()),
		"GetJieQi=" + l.GetJieQi(), "GetJie=" + l.GetJie(), "GetQi=" + l.GetQi(), "GetJieQiList=" + strings.Join(listStrings(l.GetJieQiList()), ",")}
	tbl := l.GetJieQiTable()
	for _, k := range termKeys31 {
		if s := tbl[k]; s != nil {
			parts = append(parts, k+"="+s.ToYmdHms())
		} else {
			parts = append(parts, k+"=nil")
		}
	}
	return strings.Join(parts, ";")
}

type termEntry struct {
	secs int64
	day  int // JDN
	idx  int
	st   ref.Stamp
}

func c03Lookup(w *W, y int) {
	w.Class(fmt.Sprintf("lookup/century%02d", y/100))
	historyTouch(w, y)
	base := calendar.NewSolarFromYmd(y, 6, 15).GetLunar()
	tbl := base.GetJieQiTable()
	var model []termEntry
	for i, k := range termKeys31 {
		s := tbl[k]
		if s == nil {
			return // reported by the table case
		}
		st := stampOf(s)
		model = append(model, termEntry{st.Secs(), ref.JDN(st.Y, st.M, st.D), i, st})
	}
	var queries []ref.Stamp
	yearLo := ref.Stamp{Y: y, M: 1, D: 1}.Secs()
	yearHi := ref.Stamp{Y: y, M: 12, D: 31, H: 23, Mi: 59, S: 59}.Secs()
	for _, e := range model {
		for _, t := range []int64{e.secs - 1, e.secs, e.secs + 1, int64(e.day) * 86400, int64(e.day)*86400 + 86399, int64(e.day)*86400 - 1, int64(e.day+1) * 86400} {
			if t >= yearLo && t <= yearHi {
				queries = append(queries, ref.FromSecs(t))
			}
		}
	}
	for i := 0; i < 12; i++ {
		queries = append(queries, ref.FromSecs(yearLo+w.Rng.Int63n(yearHi-yearLo+1)))
	}
	queries = append(queries, ref.FromSecs(yearLo), ref.FromSecs(yearHi))
	sorted := append([]termEntry(nil), model...)
	sort.Slice(sorted, func(i, j int) bool { return sorted[i].secs < sorted[j].secs })
	for qi, q := range queries {
		key := fmtStamp(q)
		w.Cur("C03 lookup " + key)
		distract(q, qi)
		l := solarOf(q).GetLunar()
		if qi%6 == 3 {
			digest1(l) // a Lunar that has already answered every other question (none of them may move its terms)
		}
		if l.GetYear() != q.Y || l.GetMonth() < 0 || qi%5 == 0 {
			// the same moment built from the lunar side answers the same way (always for days whose lunar year is not the
			// civil year, and in leap months): judged below in place of the civil-side object on alternate queries
			var l2 *calendar.Lunar
			if pv := Call(func() { l2 = calendar.NewLunar(l.GetYear(), l.GetMonth(), l.GetDay(), q.H, q.Mi, q.S) }); pv != nil {
				w.Violatef("lookup", key+"/lunar-route", "NewLunar(%d,%d,%d,..) for %s panicked: %v", l.GetYear(), l.GetMonth(), l.GetDay(), key, pv)
			} else if stampOf(l2.GetSolar()) == q {
				if a, b := c03TermDigest(l), c03TermDigest(l2); a != b {
					w.Violatef("lookup", key+"/lunar-route", "term look-ups at %s differ between Solar.GetLunar() and NewLunar(%d,%d,%d,..): %s", key, l.GetYear(), l.GetMonth(), l.GetDay(), diffDigests(a, b))
				}
				w.Eval(1)
				w.Count("lunar-route-queries", 1)
			}
		}
		qs := q.Secs()
		qd := ref.JDN(q.Y, q.M, q.D)
		check := func(name string, got *calendar.JieQi, forward bool, parity int, whole bool) {
			var want *termEntry
			for k := range sorted {
				e := &sorted[k]
				if parity >= 0 && e.idx%2 != parity {
					continue
				}
				if forward {
					if (whole && e.day > qd) || (!whole && e.secs > qs) {
						want = e
						break
					}
				} else {
					if (whole && e.day <= qd) || (!whole && e.secs <= qs) {
						want = e
					}
				}
			}
			w.Eval(1)
			if want == nil {
				if got != nil {
					w.Violatef("lookup", key+"/"+name, "%s at %s returned %s %s but no table entry qualifies", name, key, got.GetName(), got.GetSolar().ToYmdHms())
				} else if !forward {
					w.Violatef("lookup", key+"/"+name, "%s at %s: no entry at or before a moment inside the table's own year", name, key)
				}
				return
			}
			if got == nil {
				w.Violatef("lookup", key+"/"+name, "%s at %s returned nil, model says %s at %s", name, key, termCN31[want.idx], fmtStamp(want.st))
				return
			}
			if got.GetName() != termCN31[want.idx] || stampOf(got.GetSolar()) != want.st {
				w.Violatef("lookup", key+"/"+name, "%s at %s returned %s %s, model (latest at-or-before / earliest strictly after) says %s %s", name, key, got.GetName(), got.GetSolar().ToYmdHms(), termCN31[want.idx], fmtStamp(want.st))
			}
			if got.IsJie() != (want.idx%2 == 0) || got.IsQi() != (want.idx%2 == 1) {
				w.Violatef("jie-qi-flag", key+"/"+name, "%s: IsJie=%v IsQi=%v for %s (table position %d)", name, got.IsJie(), got.IsQi(), got.GetName(), want.idx)
			}
		}
		check("GetPrevJieQi", l.GetPrevJieQi(), false, -1, false)
		check("GetNextJieQi", l.GetNextJieQi(), true, -1, false)
		check("GetPrevJie", l.GetPrevJie(), false, 0, false)
		check("GetNextJie", l.GetNextJie(), true, 0, false)
		check("GetPrevQi", l.GetPrevQi(), false, 1, false)
		check("GetNextQi", l.GetNextQi(), true, 1, false)
		check("GetPrevJieQiByWholeDay", l.GetPrevJieQiByWholeDay(true), false, -1, true)
		check("GetNextJieQiByWholeDay", l.GetNextJieQiByWholeDay(true), true, -1, true)
		check("GetPrevJieByWholeDay", l.GetPrevJieByWholeDay(true), false, 0, true)
		check("GetNextJieByWholeDay", l.GetNextJieByWholeDay(true), true, 0, true)
		check("GetPrevQiByWholeDay", l.GetPrevQiByWholeDay(true), false, 1, true)
		check("GetNextQiByWholeDay", l.GetNextQiByWholeDay(true), true, 1, true)
		check("GetPrevJieByWholeDay(false)", l.GetPrevJieByWholeDay(false), false, 0, false)
		// the term named for the day
		wantName, wantJie, wantQi := "", "", ""
		for _, e := range model {
			if e.day == qd {
				if wantName == "" {
					wantName = termCN31[e.idx]
				}
				if e.idx%2 == 0 {
					wantJie = termCN31[e.idx]
				} else {
					wantQi = termCN31[e.idx]
				}
			}
		}
		if l.GetJieQi() != wantName || l.GetJie() != wantJie || l.GetQi() != wantQi {
			w.Violatef("day-term", key, "day %s: GetJieQi=%q GetJie=%q GetQi=%q, model %q/%q/%q", key, l.GetJieQi(), l.GetJie(), l.GetQi(), wantName, wantJie, wantQi)
		}
		cur := func(name string, jq *calendar.JieQi, want string) {
			if (jq == nil) != (want == "") || (jq != nil && (jq.GetName() != want || stampOf(jq.GetSolar()) != q)) {
				w.Violatef("day-term", key+"/"+name, "%s at %s = %v, model name %q", name, key, jq, want)
			}
		}
		cur("GetCurrentJieQi", l.GetCurrentJieQi(), wantName)
		cur("GetCurrentJie", l.GetCurrentJie(), wantJie)
		cur("GetCurrentQi", l.GetCurrentQi(), wantQi)
		w.Eval(4)
		if wantName != "" {
			w.Count("queries-on-term-days", 1)
		}
		w.Distinct(1)
	}
	w.Count("lookup-queries", len(queries))
	if y == 2024 {
		w.Sample("lookup", map[string]interface{}{"year": y, "queries": len(queries), "first": fmtStamp(queries[0])})
	}
}

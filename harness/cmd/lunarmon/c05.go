package main

// C05 - year/month/day/hour pillars run in unbroken 60-cycles with exact change-overs.
// Reference: sexagenary arithmetic on the JDN (ref.RefGZ) plus the rule of the property
// re-implemented over the object's own Jie instants (validated separately by C03).

import (
	"fmt"
	"github.com/6tail/lunar-go/LunarUtil"

	"github.com/6tail/lunar-go/calendar"
	"lunarmon/ref"
)

func init() {
	register(&Prop{
		ID:   "C05",
		Rule: "cases: one civil year each. Moments: every Jie instant J of the year with J-1s, J, J+1s, the first and last second of J's day, the last second of the previous day and the first of the next, 22:59:59/23:00:00 on J's day; lunar New Year -1/0/+1 day at the boundary times T0; every odd-hour boundary and the second before it on one day; and a day walk (every day of boundary years and, in the thorough tier, of all years; every 5th day otherwise) at a rotating boundary time plus 23:30. At each moment all three year conventions, both month conventions, three day variants, the hour pillar, every Gan/Zhi index getter and the EightChar pillars under both sects are compared with the reference. distinct_nontrivial counts distinct moments judged.",
		Assumptions: []string{
			"anchors: JDN 2451545 (2000-01-01) is a 戊午 day, 1984 is a 甲子 year",
			"Jie instants are read from the object's own term table (C03 validates them); the lunar year number is read from the object (C01/C02/C06 validate it)",
			"the hour stem follows the day stem that starts at 23:00 in both day conventions (the single hour pillar the library exposes)",
		},
		Gen: c05Gen, Run: c05Run,
		BlockKind: "year", BlockQuick: [2]int{6, 6}, BlockThorough: [2]int{0, 25},
		Exhaustive: func(tier string) bool { return false },
		MinEvals:   map[string]int64{"quick": 2000000, "thorough": 50000000},
		Chunks:     128,
	})
}

func c05Gen(g *Gen) []Case {
	if g.Quick {
		return yearCases("year", sampleYears(g.Rng, 400, true))
	}
	return yearCases("year", allYears())
}

// pillars computed by the reference for one moment
type refPillars struct {
	year     [3]int // 60-cycle index under conventions 1 (lunar new year), 2 (Lichun day), 3 (Lichun instant)
	month    [2]int // day convention, exact
	day      [3]int // plain, exact (early rat), exact2 (late rat)
	hour     int
	nearJie  bool
	lead     bool
	beforeLC [2]bool
}

func c05Reference(st ref.Stamp, l *calendar.Lunar) (rp refPillars, err string) {
	tbl := l.GetJieQiTable()
	secs := st.Secs()
	jdn := ref.JDN(st.Y, st.M, st.D)
	lc := tbl["立春"]
	if lc == nil || lc.GetYear() != st.Y {
		return rp, fmt.Sprintf("the object's term table has no 立春 inside civil year %d", st.Y)
	}
	lcs := stampOf(lc)
	// year
	rp.year[0] = ref.YearPair(l.GetYear())
	y2, y3 := st.Y, st.Y
	if jdn < ref.JDN(lcs.Y, lcs.M, lcs.D) {
		y2--
		rp.beforeLC[0] = true
	}
	if secs < lcs.Secs() {
		y3--
		rp.beforeLC[1] = true
	}
	rp.year[1] = ref.YearPair(y2)
	rp.year[2] = ref.YearPair(y3)
	rp.lead = l.GetYear() > st.Y
	// month: latest Jie (even table positions) at or before the moment
	for variant := 0; variant < 2; variant++ {
		pos := -1
		for p := 0; p <= 30; p += 2 {
			e := tbl[termKeys31[p]]
			if e == nil {
				return rp, "term table lacks " + termKeys31[p]
			}
			es := stampOf(e)
			var passed bool
			if variant == 0 {
				passed = ref.JDN(es.Y, es.M, es.D) <= jdn
			} else {
				passed = es.Secs() <= secs
			}
			if passed {
				pos = p
			}
			d := es.Secs() - secs
			if d < 0 {
				d = -d
			}
			if d <= 86400 {
				rp.nearJie = true
			}
		}
		if pos < 0 {
			return rp, "moment precedes the first entry of its own year's term table"
		}
		branch := (pos / 2) % 12
		// Lichun-year of the month: positions 4..26 belong to civil year Y, 0..2 to Y-1, 28.. to Y+1
		my := st.Y
		if pos < 4 {
			my--
		} else if pos >= 28 {
			my++
		}
		off := ref.PairFrom(0, 0) // unused, keeps PairFrom referenced
		_ = off
		k := (branch - 2 + 12) % 12 // months since the 寅 month
		stem := (ref.FirstMonthStem(ref.YearPair(my)%10) + k) % 10
		rp.month[variant] = ref.PairFrom(stem, branch)
	}
	// day
	rp.day[0] = ref.DayPair(jdn)
	rp.day[2] = rp.day[0]
	rp.day[1] = rp.day[0]
	if st.H == 23 {
		rp.day[1] = (rp.day[0] + 1) % 60
	}
	// hour
	hb := ref.HourBranch(st.H)
	hs := (ref.RatHourStem(rp.day[1]%10) + hb) % 10
	rp.hour = ref.PairFrom(hs, hb)
	return rp, ""
}

func c05Moment(w *W, st ref.Stamp, class string) {
	key := fmtStamp(st)
	w.Cur("C05 moment " + key)
	l := solarOf(st).GetLunar()
	rp, e := c05Reference(st, l)
	if e != "" {
		w.Violatef("table", key, "%s", e)
		return
	}
	cmp := func(mon, what, got string, wantPair int) {
		w.Eval(1)
		if wantPair < 0 || got != ref.Pair60(wantPair) {
			w.Violatef(mon, key+"/"+what, "%s at %s = %s, reference %s", what, key, got, ref.Pair60(wantPair))
		}
	}
	cmp("year", "GetYearInGanZhi", l.GetYearInGanZhi(), rp.year[0])
	cmp("year", "GetYearInGanZhiByLiChun", l.GetYearInGanZhiByLiChun(), rp.year[1])
	cmp("year", "GetYearInGanZhiExact", l.GetYearInGanZhiExact(), rp.year[2])
	cmp("month", "GetMonthInGanZhi", l.GetMonthInGanZhi(), rp.month[0])
	cmp("month", "GetMonthInGanZhiExact", l.GetMonthInGanZhiExact(), rp.month[1])
	cmp("day", "GetDayInGanZhi", l.GetDayInGanZhi(), rp.day[0])
	cmp("day", "GetDayInGanZhiExact", l.GetDayInGanZhiExact(), rp.day[1])
	cmp("day", "GetDayInGanZhiExact2", l.GetDayInGanZhiExact2(), rp.day[2])
	cmp("hour", "GetTimeInGanZhi", l.GetTimeInGanZhi(), rp.hour)
	// index getters and part getters
	idx := func(what string, gi, zi int, gan, zhi string, wantPair int) {
		w.Eval(1)
		if gi < 0 || gi > 9 || zi < 0 || zi > 11 || gi%2 != zi%2 {
			w.Violatef("index", key+"/"+what, "%s indices at %s are stem %d branch %d (out of range or parity mismatch)", what, key, gi, zi)
			return
		}
		if wantPair >= 0 && (gi != wantPair%10 || zi != wantPair%12 || gan != ref.Stems[gi] || zhi != ref.Branches[zi]) {
			w.Violatef("index", key+"/"+what, "%s at %s: indices %d/%d names %s%s, reference %s", what, key, gi, zi, gan, zhi, ref.Pair60(wantPair))
		}
	}
	idx("year", l.GetYearGanIndex(), l.GetYearZhiIndex(), l.GetYearGan(), l.GetYearZhi(), rp.year[0])
	idx("yearByLiChun", l.GetYearGanIndexByLiChun(), l.GetYearZhiIndexByLiChun(), l.GetYearGanByLiChun(), l.GetYearZhiByLiChun(), rp.year[1])
	idx("yearExact", l.GetYearGanIndexExact(), l.GetYearZhiIndexExact(), l.GetYearGanExact(), l.GetYearZhiExact(), rp.year[2])
	idx("month", l.GetMonthGanIndex(), l.GetMonthZhiIndex(), l.GetMonthGan(), l.GetMonthZhi(), rp.month[0])
	idx("monthExact", l.GetMonthGanIndexExact(), l.GetMonthZhiIndexExact(), l.GetMonthGanExact(), l.GetMonthZhiExact(), rp.month[1])
	idx("day", l.GetDayGanIndex(), l.GetDayZhiIndex(), l.GetDayGan(), l.GetDayZhi(), rp.day[0])
	idx("dayExact", l.GetDayGanIndexExact(), l.GetDayZhiIndexExact(), l.GetDayGanExact(), l.GetDayZhiExact(), rp.day[1])
	idx("dayExact2", l.GetDayGanIndexExact2(), l.GetDayZhiIndexExact2(), l.GetDayGanExact2(), l.GetDayZhiExact2(), rp.day[2])
	idx("time", l.GetTimeGanIndex(), l.GetTimeZhiIndex(), l.GetTimeGan(), l.GetTimeZhi(), rp.hour)
	// the exported slot helpers asked directly with the clock string (with and without seconds)
	hm := fmt.Sprintf("%02d:%02d", st.H, st.Mi)
	if zi := ((st.H + 1) / 2) % 12; LunarUtil.GetTimeZhiIndex(hm) != zi || LunarUtil.ConvertTime(hm) != ref.Branches[zi] || LunarUtil.GetTimeZhiIndex(hm+fmt.Sprintf(":%02d", st.S)) != zi {
		w.Violatef("hour-branch", key+"/util", "LunarUtil.GetTimeZhiIndex(%q)=%d ConvertTime=%s, the two-hour slot is %s", hm, LunarUtil.GetTimeZhiIndex(hm), LunarUtil.ConvertTime(hm), ref.Branches[zi])
	}
	w.Eval(1)
	// the same moment built from the lunar side must carry the same pillars (leap months, months 11-12-1 and Jie days always)
	if lm := l.GetMonth(); lm < 0 || lm >= 11 || lm == 1 || rp.nearJie || rp.lead {
		var l2 *calendar.Lunar
		if pv := Call(func() { l2 = calendar.NewLunar(l.GetYear(), lm, l.GetDay(), st.H, st.Mi, st.S) }); pv != nil {
			w.Violatef("lunar-route", key, "NewLunar(%d,%d,%d,..) for %s panicked: %v", l.GetYear(), lm, l.GetDay(), key, pv)
		} else {
			a := []string{l.GetYearInGanZhi(), l.GetYearInGanZhiByLiChun(), l.GetYearInGanZhiExact(), l.GetMonthInGanZhi(), l.GetMonthInGanZhiExact(), l.GetDayInGanZhi(), l.GetDayInGanZhiExact(), l.GetDayInGanZhiExact2(), l.GetTimeInGanZhi()}
			b := []string{l2.GetYearInGanZhi(), l2.GetYearInGanZhiByLiChun(), l2.GetYearInGanZhiExact(), l2.GetMonthInGanZhi(), l2.GetMonthInGanZhiExact(), l2.GetDayInGanZhi(), l2.GetDayInGanZhiExact(), l2.GetDayInGanZhiExact2(), l2.GetTimeInGanZhi()}
			if fmt.Sprint(a) != fmt.Sprint(b) {
				w.Violatef("lunar-route", key, "pillars at %s: from the civil date %v, from NewLunar(%d,%d,%d,..) %v", key, a, l.GetYear(), lm, l.GetDay(), b)
			}
			w.Eval(1)
			w.Count("lunar-side-constructions", 1)
		}
	}
	// the hour object(s) of the same moment (and, at 23:xx / every 4th moment, the day's 13 hour objects)
	if st.H == 23 || st.H == 0 || (st.Mi+st.S+st.D)%4 == 0 {
		lt := l.GetTime()
		cmp("hour", "LunarTime.GetGanZhi", lt.GetGanZhi(), rp.hour)
		idx("LunarTime", lt.GetGanIndex(), lt.GetZhiIndex(), lt.GetGan(), lt.GetZhi(), rp.hour)
		ts := l.GetTimes()
		if len(ts) != 13 {
			w.Violatef("hour", key+"/GetTimes", "GetTimes() has %d entries", len(ts))
		} else {
			for k, t := range ts {
				hb := k % 12
				dayStem := rp.day[0] % 10
				if k == 12 {
					dayStem = (dayStem + 1) % 10 // 23:00 belongs to the next day's rat hour
				}
				want := ref.PairFrom((ref.RatHourStem(dayStem)+hb)%10, hb)
				cmp("hour", fmt.Sprintf("GetTimes()[%d].GetGanZhi", k), t.GetGanZhi(), want)
			}
		}
	}
	// eight characters under both sects (fresh object per sect: SetSect mutates the shared chart)
	for sect := 1; sect <= 2; sect++ {
		ec := solarOf(st).GetLunar().GetEightChar()
		ec.SetSect(sect)
		wantDay := rp.day[1]
		if sect == 2 {
			wantDay = rp.day[2]
		}
		tag := fmt.Sprintf("EightChar(sect %d).", sect)
		cmp("eightchar", tag+"GetYear", ec.GetYear(), rp.year[2])
		cmp("eightchar", tag+"GetMonth", ec.GetMonth(), rp.month[1])
		cmp("eightchar", tag+"GetDay", ec.GetDay(), wantDay)
		cmp("eightchar", tag+"GetTime", ec.GetTime(), rp.hour)
		if ec.GetDayGanIndex() != wantDay%10 || ec.GetDayZhiIndex() != wantDay%12 || ec.GetDayGan()+ec.GetDayZhi() != ref.Pair60(wantDay) || ec.GetYearGan()+ec.GetYearZhi() != ref.Pair60(rp.year[2]) || ec.GetMonthGan()+ec.GetMonthZhi() != ref.Pair60(rp.month[1]) || ec.GetTimeGan()+ec.GetTimeZhi() != ref.Pair60(rp.hour) {
			w.Violatef("eightchar", key+"/"+tag+"parts", "%sstem/branch getters at %s do not spell the pillars %s %s %s %s", tag, key, ref.Pair60(rp.year[2]), ref.Pair60(rp.month[1]), ref.Pair60(wantDay), ref.Pair60(rp.hour))
		}
		w.Eval(1)
	}
	w.Distinct(1)
	w.Count(class, 1)
	if rp.lead {
		w.Count("lead-day-moments", 1)
	}
	if rp.beforeLC[0] != rp.beforeLC[1] {
		w.Count("lichun-day-before-instant", 1)
	}
	if rp.month[0] != rp.month[1] {
		w.Count("jie-day-before-instant", 1)
	}
	if st.H == 23 {
		w.Count("late-rat-hour", 1)
	}
}

func c05Run(w *W, c Case) {
	y := c.A[0]
	w.Class(fmt.Sprintf("century%02d", y/100))
	historyTouch(w, y)
	by := isBoundaryYear(y)
	base := calendar.NewSolarFromYmd(y, 6, 15).GetLunar()
	tbl := base.GetJieQiTable()
	yearLo := ref.Stamp{Y: y, M: 1, D: 1}.Secs()
	yearHi := ref.Stamp{Y: y, M: 12, D: 31, H: 23, Mi: 59, S: 59}.Secs()
	nAdd := 0
	add := func(t int64, class string) {
		if t >= yearLo && t <= yearHi {
			if nAdd++; nAdd%9 == 0 {
				distract(ref.FromSecs(t), nAdd/9)
			}
			c05Moment(w, ref.FromSecs(t), class)
		}
	}
	// Jie boundaries
	for p := 0; p <= 30; p += 2 {
		e := tbl[termKeys31[p]]
		if e == nil {
			continue
		}
		es := stampOf(e)
		j := es.Secs()
		d0 := int64(ref.JDN(es.Y, es.M, es.D)) * 86400
		for _, t := range []int64{j - 1, j, j + 1, d0, d0 + 86399, d0 - 1, d0 + 86400, d0 + 22*3600 + 3599, d0 + 23*3600} {
			add(t, "jie-boundary-moments")
		}
	}
	// lunar New Year of year y: -1, 0, +1 day at the boundary times
	if m1 := calendar.NewLunarYear(y).GetMonth(1); m1 != nil {
		j := int64(m1.GetFirstJulianDay() + 0.5)
		for dd := int64(-1); dd <= 1; dd++ {
			for _, t := range T0 {
				add((j+dd)*86400+int64(t[0]*3600+t[1]*60+t[2]), "new-year-moments")
			}
		}
	}
	// every slot boundary on one day
	sd := int64(ref.JDN(y, 1, 1) + w.Rng.Intn(ref.DaysInYear(y)))
	for h := 1; h <= 23; h += 2 {
		add(sd*86400+int64(h*3600)-1, "slot-boundary-moments")
		add(sd*86400+int64(h*3600), "slot-boundary-moments")
	}
	// day walk
	step := 5
	if by || !w.Quick {
		step = 1
	}
	for j := ref.JDN(y, 1, 1); j <= ref.JDN(y, 12, 31); j += step {
		t := T0[(j+y)%len(T0)]
		add(int64(j)*86400+int64(t[0]*3600+t[1]*60+t[2]), "walk-moments")
		add(int64(j)*86400+23*3600+30*60, "walk-moments")
	}
	if y == 2024 {
		w.Sample("year", map[string]interface{}{"year": y, "lichun": fmtStamp(stampOf(tbl["立春"]))})
	}
}

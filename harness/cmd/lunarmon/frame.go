package main

// Monitor kit + driver shared by all properties.
//
// Process model: the parent generates a deterministic list of coarse "cases"
// (typically one civil year, or one batch of seeded moments), splits it into
// contiguous chunks and runs them in a pool of worker *processes* (the library
// serialises on one mutex around a one-slot year cache, so in-process
// parallelism only thrashes the cache). Every worker keeps its current input in
// a small mmap'ed file, so that a fatal crash or a hang leaves the witness on
// disk; violations, counters and functional-dependency tables are returned as
// JSON and merged by the parent, which writes the evidence file and prints the
// verdict lines.

import (
	"encoding/json"
	"fmt"
	"hash/fnv"
	"math/rand"
	"os"
	"os/exec"
	"path/filepath"
	"regexp"
	"runtime"
	"runtime/debug"
	"sort"
	"strconv"
	"strings"
	"sync"
	"sync/atomic"
	"syscall"
	"time"
)

const verifRoot = "/verif"

// Case is the unit of work and of replay.
type Case struct {
	K string `json:"k"`
	A []int  `json:"a,omitempty"`
	S string `json:"s,omitempty"`
}

func (c Case) String() string {
	b, _ := json.Marshal(c)
	return string(b)
}

// Gen is the generator context.
type Gen struct {
	Tier  string
	Seed  int64
	Rng   *rand.Rand
	Quick bool
}

// Prop describes one property's monitor.
type Prop struct {
	ID           string
	Rule         string
	Assumptions  []string
	Gen          func(g *Gen) []Case
	Run          func(w *W, c Case)
	Init         func(w *W)
	Post         func(pc *Parent)
	Exhaustive   func(tier string) bool
	MinEvals     map[string]int64
	Chunks       int // number of chunks (default 64)
	Race         bool
	Custom       func(pc *Parent) // replaces the generic case pool when set
	ChunkTimeout map[string]time.Duration
	// BlockKind names a one-year case kind for which "block" cases are added: one process then works through
	// consecutive years in a row (forwards or backwards), the way a long-running caller would, on top of the
	// strided distribution that never puts two neighbouring years into the same process.
	// First, if set, runs before anything else has touched the library in a worker process (even the seam warm-up)
	First                     func(w *W, chunkIdx int)
	BlockKind                 string
	BlockQuick, BlockThorough [2]int // {number of blocks, years per block}; thorough count 0 = tile the whole range
}

var props = map[string]*Prop{}

func register(p *Prop) {
	props[p.ID] = p
	if p.BlockKind == "" {
		return
	}
	gen, run := p.Gen, p.Run
	p.Gen = func(g *Gen) []Case {
		cs := gen(g)
		nb, ln := p.BlockQuick[0], p.BlockQuick[1]
		if !g.Quick {
			nb, ln = p.BlockThorough[0], p.BlockThorough[1]
		}
		if ln <= 0 {
			return cs
		}
		rng := rand.New(rand.NewSource(g.Seed*7919 + 13))
		if nb == 0 {
			for y, i := minYear, 0; y <= maxYear; y, i = y+ln, i+1 {
				n := ln
				if y+n-1 > maxYear {
					n = maxYear - y + 1
				}
				cs = append(cs, Case{K: "block", A: []int{y, n, i % 2}})
			}
			return cs
		}
		fixed := []int{2017, 1578, 1, maxYear - ln + 1}
		for i := 0; i < nb; i++ {
			y := minYear + rng.Intn(maxYear-minYear-ln)
			if i < len(fixed) {
				y = fixed[i]
			}
			cs = append(cs, Case{K: "block", A: []int{y, ln, i % 2}})
		}
		return cs
	}
	p.Run = func(w *W, c Case) {
		if c.K != "block" {
			run(w, c)
			return
		}
		y0, n, back := c.A[0], c.A[1], c.A[2]
		w.Class("block")
		w.InBlock = true
		defer func() { w.InBlock = false }()
		for i := 0; i < n; i++ {
			y := y0 + i
			if back == 1 {
				y = y0 + n - 1 - i
			}
			if y < minYear || y > maxYear {
				continue
			}
			if w.Full() {
				return
			}
			run(w, Case{K: p.BlockKind, A: []int{y}})
		}
	}
}

// Violation is one refuting observation.
type Violation struct {
	Monitor string      `json:"monitor"`
	Key     string      `json:"key"`
	Msg     string      `json:"msg"`
	Case    *Case       `json:"case,omitempty"`
	Detail  interface{} `json:"detail,omitempty"`
}

type fdEntry struct {
	Val string `json:"v"`
	Wit string `json:"w"`
}

// Result is what a worker hands back.
type Result struct {
	Done       bool                          `json:"done"`
	Evals      int64                         `json:"evals"`
	Distinct   int64                         `json:"distinct"`
	Counters   map[string]int64              `json:"counters"`
	Classes    map[string]bool               `json:"classes"`
	Samples    []interface{}                 `json:"samples"`
	Violations []Violation                   `json:"violations"`
	NViol      int64                         `json:"nviol"`
	Masked     map[string]int64              `json:"masked"`
	FD         map[string]map[string]fdEntry `json:"fd"`
	Extra      map[string]interface{}        `json:"extra,omitempty"`
	WallS      float64                       `json:"wall_s"`
	Cases      int                           `json:"cases"`
}

func newResult() *Result {
	return &Result{Counters: map[string]int64{}, Classes: map[string]bool{}, Masked: map[string]int64{}, FD: map[string]map[string]fdEntry{}, Extra: map[string]interface{}{}}
}

// W is the worker-side monitor context.
type W struct {
	P       *Prop
	Tier    string
	Quick   bool
	Seed    int64
	Rng     *rand.Rand // re-seeded per case
	R       *Result
	cur     []byte // mmap
	curCase *Case
	seen    map[string]bool
	nsample map[string]int
	nOpen   int
	InBlock bool // the current case is one year of a consecutive-years block
	mu      sync.Mutex
}

const curSize = 1024
const maxStoredViolations = 300

func (w *W) Cur(s string) {
	if w.cur == nil {
		return
	}
	n := copy(w.cur[:curSize-1], s)
	w.cur[n] = 0
}

func (w *W) Curf(format string, a ...interface{}) {
	if w.cur == nil {
		return
	}
	w.Cur(fmt.Sprintf(format, a...))
}

func (w *W) Eval(n int)               { w.R.Evals += int64(n) }
func (w *W) Distinct(n int)           { w.R.Distinct += int64(n) }
func (w *W) Count(name string, n int) { w.R.Counters[name] += int64(n) }
func (w *W) Class(name string)        { w.R.Classes[name] = true }
func (w *W) Masked(mon string, n int) { w.R.Masked[mon] += int64(n) }

// Sample keeps a few literal cases per monitor for the evidence file.
func (w *W) Sample(mon string, v interface{}) {
	if w.nsample[mon] >= 2 {
		return
	}
	w.nsample[mon]++
	w.R.Samples = append(w.R.Samples, map[string]interface{}{"monitor": mon, "case": v})
}

// Violate records a refuting observation under a canonical key.
func (w *W) Violate(mon, key, msg string, detail interface{}) {
	w.mu.Lock()
	defer w.mu.Unlock()
	k := w.P.ID + "/" + mon + "/" + key
	if w.seen[k] {
		return
	}
	w.seen[k] = true
	w.R.NViol++
	if len(w.R.Violations) < maxStoredViolations {
		w.R.Violations = append(w.R.Violations, Violation{Monitor: mon, Key: k, Msg: msg, Case: w.curCase, Detail: detail})
	}
}

// Full: this process has already recorded so many distinct violations (none of which a listed open finding could
// account for) that further cases only add witnesses; the verdict cannot change. Keeps runs on a badly broken tree
// from taking hours (some breakages make every later call slower).
func (w *W) Full() bool {
	if w.nOpen < 0 {
		w.nOpen = 0
		for _, f := range loadFindings() {
			if f.Property == w.P.ID && f.Status == "open" {
				w.nOpen++
			}
		}
	}
	return w.nOpen == 0 && w.R.NViol >= 2000
}

func (w *W) Violatef(mon, key, format string, a ...interface{}) {
	w.Violate(mon, key, fmt.Sprintf(format, a...), nil)
}

// FD feeds a functional-dependency monitor: the same key must always map to the same value.
func (w *W) FD(mon, key, val, wit string) {
	m := w.R.FD[mon]
	if m == nil {
		m = map[string]fdEntry{}
		w.R.FD[mon] = m
	}
	if e, ok := m[key]; ok {
		if e.Val != val {
			w.Violate(mon, "fd/"+key, fmt.Sprintf("same defining inputs %q gave %q at %s but %q at %s", key, e.Val, e.Wit, val, wit), nil)
		}
		return
	}
	m[key] = fdEntry{val, wit}
}

// Call runs f and returns the recovered panic value (nil if it returned normally).
func Call(f func()) (pv interface{}) {
	defer func() {
		if r := recover(); r != nil {
			pv = r
		}
	}()
	f()
	return nil
}

func hashStr(s string) uint64 {
	h := fnv.New64a()
	h.Write([]byte(s))
	return h.Sum64()
}

// ---------------------------------------------------------------- worker

func topLibFrame(stack string) string {
	for _, ln := range strings.Split(stack, "\n") {
		if strings.Contains(ln, "/repo/") || strings.Contains(ln, "lunar-go") {
			if strings.HasPrefix(strings.TrimSpace(ln), "/") || strings.Contains(ln, ".go:") {
				return strings.TrimSpace(ln)
			}
		}
	}
	return ""
}

func (w *W) runCase(c Case) {
	w.curCase = &c
	w.Cur(c.String())
	w.Rng = rand.New(rand.NewSource(w.Seed ^ int64(hashStr(c.String()))))
	defer func() {
		if r := recover(); r != nil {
			st := string(debug.Stack())
			cur := ""
			if w.cur != nil {
				cur = strings.TrimRight(string(w.cur[:curSize]), "\x00")
				if i := strings.IndexByte(cur, 0); i >= 0 {
					cur = cur[:i]
				}
			}
			w.Violate("panic", fmt.Sprintf("%v@%s", r, cur), fmt.Sprintf("library call panicked on an input the monitor expects to be valid: %v (input: %s)", r, cur), map[string]string{"frame": topLibFrame(st)})
		}
	}()
	w.P.Run(w, c)
}

func workerMain(args []string) int {
	// args: prop tier seed chunkfile outfile
	p := props[args[0]]
	tier := args[1]
	seed, _ := strconv.ParseInt(args[2], 10, 64)
	var cases []Case
	b, err := os.ReadFile(args[3])
	if err != nil {
		fmt.Fprintln(os.Stderr, err)
		return 3
	}
	if err := json.Unmarshal(b, &cases); err != nil {
		fmt.Fprintln(os.Stderr, err)
		return 3
	}
	out := args[4]
	w := newW(p, tier, seed)
	if f, err := os.OpenFile(out+".cur", os.O_RDWR|os.O_CREATE|os.O_TRUNC, 0644); err == nil {
		f.Truncate(curSize)
		if m, err := syscall.Mmap(int(f.Fd()), 0, curSize, syscall.PROT_READ|syscall.PROT_WRITE, syscall.MAP_SHARED); err == nil {
			w.cur = m
		}
		f.Close()
	}
	t0 := time.Now()
	chunkIdx := 0
	if m := regexp.MustCompile(`chunk-(\d+)`).FindStringSubmatch(args[3]); m != nil {
		chunkIdx, _ = strconv.Atoi(m[1])
	}
	if p.First != nil {
		p.First(w, chunkIdx)
	}
	seamWarmup(chunkIdx)
	if p.Init != nil {
		p.Init(w)
	}
	for _, c := range cases {
		if w.Full() {
			w.Count("cases-skipped-after-2000-violations", 1)
		} else {
			w.runCase(c)
		}
		w.R.Cases++
	}
	w.R.Done = true
	w.R.WallS = time.Since(t0).Seconds()
	jb, _ := json.Marshal(w.R)
	if err := os.WriteFile(out+".tmp", jb, 0644); err != nil {
		fmt.Fprintln(os.Stderr, err)
		return 3
	}
	os.Rename(out+".tmp", out)
	return 0
}

func newW(p *Prop, tier string, seed int64) *W {
	return &W{P: p, Tier: tier, Quick: tier == "quick", Seed: seed, R: newResult(), nOpen: -1, seen: map[string]bool{}, nsample: map[string]int{}, Rng: rand.New(rand.NewSource(seed))}
}

// ---------------------------------------------------------------- parent

type Parent struct {
	P        *Prop
	Tier     string
	Seed     int64
	Tmp      string
	R        *Result // merged
	Incon    []string
	Workers  int
	NCases   int
	NChunks  int
	ChunkS   []float64
	t0       time.Time
	selfExe  string
	raceExe  string
	isReplay bool
}

func (pc *Parent) Inconclusive(msg string) { pc.Incon = append(pc.Incon, msg) }

func (pc *Parent) Violate(mon, key, msg string, c *Case, detail interface{}) {
	k := pc.P.ID + "/" + mon + "/" + key
	for _, v := range pc.R.Violations {
		if v.Key == k {
			return
		}
	}
	pc.R.NViol++
	pc.R.Violations = append(pc.R.Violations, Violation{Monitor: mon, Key: k, Msg: msg, Case: c, Detail: detail})
}

func (pc *Parent) merge(r *Result) {
	m := pc.R
	m.Evals += r.Evals
	m.Distinct += r.Distinct
	m.Cases += r.Cases
	for k, v := range r.Counters {
		m.Counters[k] += v
	}
	for k := range r.Classes {
		m.Classes[k] = true
	}
	for k, v := range r.Masked {
		m.Masked[k] += v
	}
	if len(m.Samples) < 10 {
		for _, s := range r.Samples {
			if len(m.Samples) < 10 {
				m.Samples = append(m.Samples, s)
			}
		}
	}
	for _, v := range r.Violations {
		dup := false
		for _, o := range m.Violations {
			if o.Key == v.Key {
				dup = true
				break
			}
		}
		if !dup {
			m.Violations = append(m.Violations, v)
			m.NViol++
		}
	}
	if r.NViol > int64(len(r.Violations)) {
		m.NViol += r.NViol - int64(len(r.Violations))
	}
	for mon, t := range r.FD {
		mt := m.FD[mon]
		if mt == nil {
			mt = map[string]fdEntry{}
			m.FD[mon] = mt
		}
		for k, e := range t {
			if o, ok := mt[k]; ok {
				if o.Val != e.Val {
					pc.Violate(mon, "fd/"+k, fmt.Sprintf("same defining inputs %q gave %q at %s but %q at %s", k, o.Val, o.Wit, e.Val, e.Wit), nil, nil)
				}
			} else {
				mt[k] = e
			}
		}
	}
	for k, v := range r.Extra {
		// numeric extras are summed, min_/max_ prefixed are folded, others kept first
		switch {
		case strings.HasPrefix(k, "max_"):
			if o, ok := m.Extra[k].(float64); !ok || toF(v) > o {
				m.Extra[k] = toF(v)
			}
		case strings.HasPrefix(k, "min_"):
			if o, ok := m.Extra[k].(float64); !ok || toF(v) < o {
				m.Extra[k] = toF(v)
			}
		default:
			if _, ok := m.Extra[k]; !ok {
				m.Extra[k] = v
			}
		}
	}
}

func toF(v interface{}) float64 {
	switch x := v.(type) {
	case float64:
		return x
	case int:
		return float64(x)
	case int64:
		return float64(x)
	}
	return 0
}

func readCur(path string) string {
	b, err := os.ReadFile(path)
	if err != nil {
		return ""
	}
	if i := strings.IndexByte(string(b), 0); i >= 0 {
		b = b[:i]
	}
	return string(b)
}

type chunkOutcome struct {
	idx    int
	res    *Result
	failed bool
	reason string
	cur    string
	stderr string
	wall   float64
}

// runChunk executes one chunk in a child process under a watchdog.
func (pc *Parent) runChunk(idx int, cases []Case, timeout time.Duration, exe string, env []string) chunkOutcome {
	cf := filepath.Join(pc.Tmp, fmt.Sprintf("chunk-%d.json", idx))
	of := filepath.Join(pc.Tmp, fmt.Sprintf("out-%d.json", idx))
	b, _ := json.Marshal(cases)
	os.WriteFile(cf, b, 0644)
	os.Remove(of)
	errf := filepath.Join(pc.Tmp, fmt.Sprintf("err-%d.txt", idx))
	ef, _ := os.Create(errf)
	cmd := exec.Command(exe, "worker", pc.P.ID, pc.Tier, strconv.FormatInt(pc.Seed, 10), cf, of)
	cmd.Stdout = ef
	cmd.Stderr = ef
	cmd.Env = append(os.Environ(), env...)
	t0 := time.Now()
	o := chunkOutcome{idx: idx}
	if err := cmd.Start(); err != nil {
		o.failed, o.reason = true, "spawn: "+err.Error()
		return o
	}
	done := make(chan error, 1)
	go func() { done <- cmd.Wait() }()
	var werr error
	timedOut := false
	select {
	case werr = <-done:
	case <-time.After(timeout):
		timedOut = true
		cmd.Process.Signal(syscall.SIGQUIT)
		select {
		case <-done:
		case <-time.After(5 * time.Second):
			cmd.Process.Kill()
			<-done
		}
	}
	ef.Close()
	o.wall = time.Since(t0).Seconds()
	eb, _ := os.ReadFile(errf)
	if len(eb) > 6000 {
		eb = eb[:6000]
	}
	o.stderr = string(eb)
	o.cur = readCur(of + ".cur")
	rb, rerr := os.ReadFile(of)
	if timedOut {
		o.failed, o.reason = true, "watchdog"
		return o
	}
	if werr != nil || rerr != nil {
		o.failed = true
		o.reason = fmt.Sprintf("worker died: %v", werr)
		return o
	}
	var r Result
	if err := json.Unmarshal(rb, &r); err != nil || !r.Done {
		o.failed, o.reason = true, "worker result unreadable"
		return o
	}
	o.res = &r
	os.Remove(cf)
	os.Remove(of)
	os.Remove(of + ".cur")
	os.Remove(errf)
	return o
}

func (pc *Parent) chunkTimeout() time.Duration {
	if pc.P.ChunkTimeout != nil {
		if d, ok := pc.P.ChunkTimeout[pc.Tier]; ok {
			return d
		}
	}
	if pc.Tier == "quick" {
		return 15 * time.Minute
	}
	return 90 * time.Minute
}

// runPool runs the case list over the worker pool and merges the results.
func (pc *Parent) runPool(cases []Case) {
	// dedupe, keep order
	seen := map[string]bool{}
	var uc []Case
	for _, c := range cases {
		k := c.String()
		if !seen[k] {
			seen[k] = true
			uc = append(uc, c)
		}
	}
	cases = uc
	pc.NCases = len(cases)
	nch := pc.P.Chunks
	if nch == 0 {
		nch = 64
	}
	if nch > len(cases) {
		nch = len(cases)
	}
	if nch == 0 {
		pc.Inconclusive("no cases generated")
		return
	}
	pc.NChunks = nch
	// strided assignment: heavy kinds of cases (generated together) are spread over all chunks
	chunks := make([][]Case, nch)
	for i, c := range cases {
		chunks[i%nch] = append(chunks[i%nch], c)
	}
	exe := pc.selfExe
	if pc.P.Race && pc.raceExe != "" {
		exe = pc.raceExe
	}
	jobs := make(chan int, nch)
	for i := 0; i < nch; i++ {
		jobs <- i
	}
	close(jobs)
	outc := make(chan chunkOutcome, nch)
	var wg sync.WaitGroup
	// development aid for the seeded-change matrix (LUNARMON_FAILFAST=1): once a chunk has come back with a violation
	// no further chunks are started; the verdict is settled and only witnesses are lost
	failFast := os.Getenv("LUNARMON_FAILFAST") == "1"
	var stop int32
	for k := 0; k < pc.Workers; k++ {
		wg.Add(1)
		go func() {
			defer wg.Done()
			for i := range jobs {
				if failFast && atomic.LoadInt32(&stop) == 1 {
					continue
				}
				o := pc.runChunk(i, chunks[i], pc.chunkTimeout(), exe, nil)
				if failFast && (o.failed || (o.res != nil && o.res.NViol > 0)) {
					atomic.StoreInt32(&stop, 1)
				}
				outc <- o
			}
		}()
	}
	wg.Wait()
	close(outc)
	var outs []chunkOutcome
	for o := range outc {
		outs = append(outs, o)
	}
	sort.Slice(outs, func(i, j int) bool { return outs[i].idx < outs[j].idx })
	for _, o := range outs {
		pc.ChunkS = append(pc.ChunkS, o.wall)
		if !o.failed {
			pc.merge(o.res)
			continue
		}
		pc.handleFailedChunk(o, chunks[o.idx], exe)
	}
}

// handleFailedChunk: a worker crashed or hung. The logged input is re-run alone in a fresh
// process; only if it fails again is this a violation (the call does not return / kills the
// process), otherwise the run is inconclusive.
func (pc *Parent) handleFailedChunk(o chunkOutcome, chunk []Case, exe string) {
	var lc *Case
	var c Case
	curCase := o.cur
	// the cur file holds either the case JSON or a finer-grained input description; find the case
	if json.Unmarshal([]byte(curCase), &c) == nil && c.K != "" {
		lc = &c
	}
	if lc == nil {
		// locate the case by re-running each case of the chunk alone is too slow in general;
		// re-run the chunk once more instead
		o2 := pc.runChunk(100000+o.idx, chunk, pc.chunkTimeout(), exe, nil)
		if !o2.failed {
			pc.merge(o2.res)
			pc.Inconclusive(fmt.Sprintf("chunk %d failed once (%s, at %q) but passed when re-run", o.idx, o.reason, o.cur))
			return
		}
		pc.Violate("nonreturn", "chunk/"+o2.cur, fmt.Sprintf("worker process %s twice while evaluating input %q; stderr: %s", o2.reason, o2.cur, tail(o2.stderr, 1500)), nil, map[string]string{"input": o2.cur})
		return
	}
	o2 := pc.runChunk(200000+o.idx, []Case{*lc}, pc.chunkTimeout(), exe, nil)
	if !o2.failed {
		pc.merge(o2.res)
		pc.Inconclusive(fmt.Sprintf("chunk %d failed (%s, at %s) but the logged case passed alone", o.idx, o.reason, o.cur))
		return
	}
	pc.Violate("nonreturn", "case/"+lc.String(), fmt.Sprintf("worker process %s twice on case %s (last input %q); stderr: %s", o2.reason, lc.String(), o2.cur, tail(o2.stderr, 1500)), lc, map[string]string{"input": o2.cur})
}

func tail(s string, n int) string {
	if len(s) <= n {
		return s
	}
	return s[:n]
}

// ---------------------------------------------------------------- known findings

type Finding struct {
	Property string `json:"property"`
	Key      string `json:"key"`
	Status   string `json:"status"` // open | fixed
	What     string `json:"what"`
	Commit   string `json:"commit,omitempty"`
}

func loadFindings() []Finding {
	var fs struct {
		Findings []Finding `json:"findings"`
	}
	b, err := os.ReadFile(filepath.Join(verifRoot, "known_findings.json"))
	if err != nil {
		return nil
	}
	json.Unmarshal(b, &fs)
	return fs.Findings
}

// ---------------------------------------------------------------- evidence + verdict

func (pc *Parent) finish() int {
	p := pc.P
	r := pc.R
	findings := loadFindings()
	open := map[string]Finding{}
	for _, f := range findings {
		if f.Property == p.ID && f.Status == "open" {
			open[f.Key] = f
		}
	}
	var real []Violation
	knownSeen := map[string]bool{}
	for _, v := range r.Violations {
		if f, ok := open[v.Key]; ok {
			knownSeen[f.Key] = true
			continue
		}
		real = append(real, v)
	}
	var knownList []string
	for k, f := range open {
		note := ""
		if !knownSeen[k] {
			note = " (not re-observed by this run)"
		}
		fmt.Printf("KNOWN-FINDING: property=%s %s [%s]%s\n", p.ID, f.What, f.Key, note)
		knownList = append(knownList, k)
	}
	sort.Strings(knownList)

	floor := int64(1)
	if p.MinEvals != nil {
		if v, ok := p.MinEvals[pc.Tier]; ok {
			floor = v
		}
	}
	if pc.isReplay {
		floor = 1
	}
	if r.Evals < floor && len(real) == 0 {
		pc.Inconclusive(fmt.Sprintf("only %d evaluations observed, floor is %d", r.Evals, floor))
	}
	if r.Distinct < 2 && len(real) == 0 && !pc.isReplay {
		pc.Inconclusive("fewer than 2 distinct non-trivial cases observed")
	}

	// replays
	outRoot := verifRoot
	if d := os.Getenv("LUNARMON_OUT"); d != "" {
		outRoot = d // development aid: keep evidence/replays of seeded-change runs out of /verif
	}
	os.MkdirAll(filepath.Join(outRoot, "replays"), 0755)
	var replayPaths []string
	for i, v := range real {
		if i >= 25 {
			break // one replay file per printed VIOLATION line; the evidence file carries the total count
		}
		name := fmt.Sprintf("%s-%016x.json", p.ID, hashStr(v.Key))
		path := filepath.Join(outRoot, "replays", name)
		rb, _ := json.MarshalIndent(map[string]interface{}{"property": p.ID, "tier": pc.Tier, "seed": pc.Seed, "violation": v}, "", " ")
		os.WriteFile(path, rb, 0644)
		replayPaths = append(replayPaths, path)
	}

	classes := make([]string, 0, len(r.Classes))
	for k := range r.Classes {
		classes = append(classes, k)
	}
	sort.Strings(classes)
	fdSizes := map[string]int{}
	for mon, t := range r.FD {
		fdSizes[mon] = len(t)
	}
	samples := r.Samples
	if len(samples) == 0 {
		samples = []interface{}{"(no sample recorded)"}
	}
	cov := map[string]interface{}{
		"evaluations":         r.Evals,
		"distinct_nontrivial": r.Distinct,
		"rule":                p.Rule,
		"samples":             samples,
		"exhaustive":          p.Exhaustive != nil && p.Exhaustive(pc.Tier),
		"monitors":            r.Counters,
		"classes_seen":        len(classes),
		"masked":              r.Masked,
		"known_findings":      knownList,
		"cases":               pc.NCases,
		"chunks":              pc.NChunks,
		"worker_processes":    pc.Workers,
		"fd_keys_seen":        fdSizes,
		"inconclusive":        pc.Incon,
	}
	if len(classes) <= 400 {
		cov["classes"] = classes
	}
	for k, v := range r.Extra {
		cov[k] = v
	}
	if len(pc.ChunkS) > 0 {
		mx := 0.0
		for _, s := range pc.ChunkS {
			if s > mx {
				mx = s
			}
		}
		cov["max_chunk_wall_s"] = mx
	}
	ev := map[string]interface{}{
		"property_id": p.ID,
		"tier":        pc.Tier,
		"seed":        pc.Seed,
		"level":       "exploration",
		"coverage":    cov,
		"assumptions": p.Assumptions,
		"wall_s":      time.Since(pc.t0).Seconds(),
		"violations":  len(real),
	}
	eb, _ := json.MarshalIndent(ev, "", " ")
	os.MkdirAll(filepath.Join(outRoot, "evidence"), 0755)
	evName := p.ID + ".json"
	if pc.isReplay {
		evName = p.ID + ".replay.json" // a replay never overwrites the evidence of the last full run
	}
	os.WriteFile(filepath.Join(outRoot, "evidence", evName), append(eb, '\n'), 0644)

	fmt.Printf("%s %s seed=%d: evaluations=%d distinct=%d cases=%d violations=%d known=%d masked=%v wall=%.1fs\n", p.ID, pc.Tier, pc.Seed, r.Evals, r.Distinct, pc.NCases, len(real), len(knownSeen), r.Masked, time.Since(pc.t0).Seconds())
	names := make([]string, 0, len(r.Counters))
	for k := range r.Counters {
		names = append(names, k)
	}
	sort.Strings(names)
	for _, k := range names {
		fmt.Printf("  monitor %-34s %d\n", k, r.Counters[k])
	}
	if len(real) > 0 {
		for i, v := range real {
			if i < 25 {
				fmt.Printf("  violation [%s] %s\n", v.Key, v.Msg)
			}
		}
		if r.NViol > int64(len(r.Violations)) {
			fmt.Printf("  (%d violations in total, %d stored)\n", r.NViol, len(r.Violations))
		}
		for i, pth := range replayPaths {
			if i < 25 {
				fmt.Printf("VIOLATION property=%s replay=%s\n", p.ID, pth)
			}
		}
		return 1
	}
	if len(pc.Incon) > 0 {
		for _, m := range pc.Incon {
			fmt.Printf("INCONCLUSIVE: property=%s %s\n", p.ID, m)
		}
		return 2
	}
	fmt.Printf("HELD property=%s on everything explored\n", p.ID)
	return 0
}

// ---------------------------------------------------------------- entry points

func envSeed() int64 {
	if s := os.Getenv("VERIF_SEED"); s != "" {
		if v, err := strconv.ParseInt(s, 10, 64); err == nil {
			return v
		}
	}
	return 1
}

func runMain(args []string) int {
	if len(args) < 1 {
		fmt.Fprintln(os.Stderr, "usage: lunarmon run <Cxx> [quick|thorough] [--replay file]")
		return 2
	}
	p := props[args[0]]
	if p == nil {
		fmt.Fprintln(os.Stderr, "unknown property", args[0])
		return 2
	}
	tier := os.Getenv("VERIF_TIER")
	replay := ""
	for i := 1; i < len(args); i++ {
		switch args[i] {
		case "quick", "thorough":
			tier = args[i]
		case "--replay":
			if i+1 < len(args) {
				replay = args[i+1]
				i++
			}
		}
	}
	if tier != "quick" && tier != "thorough" {
		tier = "quick"
	}
	seed := envSeed()
	exe, _ := os.Executable()
	tmp := os.Getenv("LUNARMON_TMP")
	if tmp == "" {
		tmp = filepath.Join(verifRoot, ".build", fmt.Sprintf("run-%d", os.Getpid()))
	}
	os.MkdirAll(tmp, 0755)
	pc := &Parent{P: p, Tier: tier, Seed: seed, Tmp: tmp, R: newResult(), t0: time.Now(), selfExe: exe, raceExe: os.Getenv("LUNARMON_RACE_EXE")}
	pc.Workers = runtime.NumCPU()
	if pc.Workers > 16 {
		pc.Workers = 16
	}
	if s := os.Getenv("LUNARMON_WORKERS"); s != "" {
		if v, err := strconv.Atoi(s); err == nil && v > 0 {
			pc.Workers = v
		}
	}
	if replay != "" {
		return pc.replay(replay)
	}
	if p.Custom != nil {
		p.Custom(pc)
	} else {
		g := &Gen{Tier: tier, Seed: seed, Rng: rand.New(rand.NewSource(seed)), Quick: tier == "quick"}
		pc.runPool(p.Gen(g))
	}
	if p.Post != nil {
		p.Post(pc)
	}
	return pc.finish()
}

// replay re-runs the case stored in a replay file.
func (pc *Parent) replay(path string) int {
	b, err := os.ReadFile(path)
	if err != nil {
		fmt.Fprintln(os.Stderr, err)
		return 2
	}
	var rf struct {
		Tier      string    `json:"tier"`
		Seed      int64     `json:"seed"`
		Violation Violation `json:"violation"`
	}
	if err := json.Unmarshal(b, &rf); err != nil || (rf.Violation.Case == nil && pc.P.Custom == nil) {
		fmt.Fprintln(os.Stderr, "replay file has no case to re-run")
		return 2
	}
	if rf.Tier != "" {
		pc.Tier = rf.Tier
	}
	pc.Seed = rf.Seed
	pc.isReplay = true
	if pc.P.Custom != nil {
		// histories and schedules are functions of (seed, tier): the witness is replayed by running the same rounds again
		// (a schedule-dependent witness may need more than one replay; the race report and descriptor are in the file)
		fmt.Printf("replaying %s %s seed=%d (violation %s)\n", pc.P.ID, pc.Tier, pc.Seed, rf.Violation.Key)
		pc.P.Custom(pc)
		return pc.finish()
	}
	fmt.Printf("replaying case %s of %s (violation %s)\n", rf.Violation.Case.String(), pc.P.ID, rf.Violation.Key)
	pc.runPool([]Case{*rf.Violation.Case})
	return pc.finish()
}

package main

// C19 - printed forms are canonical, parse back, and sort in chronological order.
// Independent parsers: a regular expression for civil stamps, a hand-built Chinese numeral /
// month-name / day-name vocabulary for lunar, Taoist and Buddhist renderings.

import (
	"fmt"
	"regexp"
	"strings"

	"github.com/6tail/lunar-go/calendar"
	"lunarmon/ref"
)

func init() {
	register(&Prop{
		ID:   "C19",
		Rule: "cases: 'civil' one year each 1..9999 (every day: ToYmd / String fixed width, parse back, successive days compare in lexicographic order), 'secs' every second of boundary days and seeded seconds (ToYmdHms likewise, successive seconds ordered), 'lunar' one civil year each (every day of sampled years, all years in the thorough tier, plus one date of every year): Lunar.String / year, month, day renderings, Tao.ToString, Foto.ToString, LunarMonth.String, LunarYear.String are parsed back with an independent parser to the same year, signed month and day; parse(print(x)) = x makes printing injective. distinct_nontrivial counts distinct dates / seconds printed and parsed.",
		Assumptions: []string{
			"independent vocabulary: digits 〇一二三四五六七八九, months 正二三四五六七八九十冬腊 with optional 闰, days 初一..初十 十一..十九 二十 廿一..廿九 三十",
		},
		Gen: c19Gen, Run: c19Run,
		BlockKind: "civil", BlockQuick: [2]int{6, 8}, BlockThorough: [2]int{0, 25},
		Exhaustive: func(tier string) bool { return false },
		MinEvals:   map[string]int64{"quick": 10000000, "thorough": 30000000},
		Chunks:     128,
	})
}

func c19Gen(g *Gen) []Case {
	var ys []int
	for y := 1; y <= 9999; y++ {
		ys = append(ys, y)
	}
	cs := yearCases("civil", ys)
	for i, d := range c04BoundaryDays {
		if g.Quick && i >= 6 {
			break
		}
		cs = append(cs, Case{K: "secs", A: []int{d[0], d[1], d[2]}})
	}
	cs = append(cs, Case{K: "secs", A: []int{9999, 12, 31}})
	if g.Quick {
		cs = append(cs, batchCases("rsecs", 20, 20000)...)
		cs = append(cs, yearCases("lunar", sampleYears(g.Rng, 60, true))...)
		cs = append(cs, Case{K: "lunar-one-per-year"})
		cs = append(cs, yearCases("lunar-turn", allYears())...)
	} else {
		cs = append(cs, batchCases("rsecs", 100, 100000)...)
		cs = append(cs, yearCases("lunar", allYears())...)
	}
	return cs
}

var reYmdP = regexp.MustCompile(`^(\d{4})-(\d{2})-(\d{2})$`)
var reYmdHmsP = regexp.MustCompile(`^(\d{4})-(\d{2})-(\d{2}) (\d{2}):(\d{2}):(\d{2})$`)

var cnDigit = map[rune]int{'〇': 0, '一': 1, '二': 2, '三': 3, '四': 4, '五': 5, '六': 6, '七': 7, '八': 8, '九': 9}
var cnMonth = map[string]int{"正": 1, "二": 2, "三": 3, "四": 4, "五": 5, "六": 6, "七": 7, "八": 8, "九": 9, "十": 10, "冬": 11, "腊": 12}
var cnDay = func() map[string]int {
	num := []string{"", "一", "二", "三", "四", "五", "六", "七", "八", "九", "十"}
	m := map[string]int{}
	for i := 1; i <= 10; i++ {
		m["初"+num[i]] = i
	}
	for i := 1; i <= 9; i++ {
		m["十"+num[i]] = 10 + i
		m["廿"+num[i]] = 20 + i
	}
	m["二十"] = 20
	m["三十"] = 30
	return m
}()

// parseCnDate parses "<digits>年[闰]<month>月<day>".
func parseCnDate(s string) (y, m, d int, err string) {
	p := strings.SplitN(s, "年", 2)
	if len(p) != 2 || p[0] == "" {
		return 0, 0, 0, "no 年"
	}
	for _, r := range p[0] {
		v, ok := cnDigit[r]
		if !ok {
			return 0, 0, 0, fmt.Sprintf("year character %q", r)
		}
		y = y*10 + v
	}
	q := strings.SplitN(p[1], "月", 2)
	if len(q) != 2 {
		return 0, 0, 0, "no 月"
	}
	mn := q[0]
	leap := strings.HasPrefix(mn, "闰")
	mn = strings.TrimPrefix(mn, "闰")
	mv, ok := cnMonth[mn]
	if !ok {
		return 0, 0, 0, fmt.Sprintf("month name %q", mn)
	}
	if leap {
		mv = -mv
	}
	dv, ok := cnDay[q[1]]
	if !ok {
		return 0, 0, 0, fmt.Sprintf("day name %q", q[1])
	}
	return y, mv, dv, ""
}

func c19Civil(w *W, y int) {
	w.Class(fmt.Sprintf("civil/century%02d", y/100))
	prev := ""
	if y > 1 {
		prev = calendar.NewSolarFromYmd(y-1, 12, 31).ToYmd()
	}
	for m := 1; m <= 12; m++ {
		for d := 1; d <= 31; d++ {
			if !ref.Exists(y, m, d) {
				continue
			}
			w.Curf("C19 civil %d-%d-%d", y, m, d)
			s := calendar.NewSolarFromYmd(y, m, d)
			str := s.ToYmd()
			g := reYmdP.FindStringSubmatch(str)
			if g == nil || len(str) != 10 {
				w.Violatef("civil-format", fmt.Sprintf("%d-%d-%d", y, m, d), "ToYmd of %d-%d-%d is %q, not fixed-width YYYY-MM-DD", y, m, d, str)
			} else if atoi(g[1]) != y || atoi(g[2]) != m || atoi(g[3]) != d {
				w.Violatef("civil-parse", fmt.Sprintf("%d-%d-%d", y, m, d), "ToYmd of %d-%d-%d is %q which parses to %s-%s-%s", y, m, d, str, g[1], g[2], g[3])
			}
			if s.String() != str {
				w.Violatef("civil-format", fmt.Sprintf("%d-%d-%d/string", y, m, d), "String()=%q differs from ToYmd()=%q", s.String(), str)
			}
			// the long form at a rotating time of day (every day of every year)
			hh, mi, ss := (d*7+m)%24, (d*13+y)%60, (d*29+m*3)%60
			long := calendar.NewSolar(y, m, d, hh, mi, ss).ToYmdHms()
			if want := fmt.Sprintf("%s %02d:%02d:%02d", ymd(y, m, d), hh, mi, ss); long != want || len(long) != 19 {
				w.Violatef("stamp-format", fmt.Sprintf("%d-%d-%d/long", y, m, d), "ToYmdHms of %s %02d:%02d:%02d is %q", ymd(y, m, d), hh, mi, ss, long)
			}
			// objects reached by stepping from this one (which has printed itself by now) print their own fields
			if (d+m)%5 == 0 {
				lg := calendar.NewSolar(y, m, d, hh, mi, ss)
				_ = lg.ToYmd() + lg.ToYmdHms() + lg.String() + lg.ToFullString()
				lg.GetLunar()
				for ri, r := range []*calendar.Solar{s.NextYear(1), s.NextYear(-1), s.NextMonth(1), s.NextDay(1), s.NextDay(-1), lg.NextYear(2), lg.NextMonth(-1), lg.NextHour(5), lg.NextHour(-30), lg.NextDay(40), lg.Next(3, false)} {
					if r.GetYear() < 1 || r.GetYear() > 9999 {
						continue
					}
					if a, b := r.ToYmd()+"|"+r.ToYmdHms()+"|"+r.String(), fmt.Sprintf("%04d-%02d-%02d|%04d-%02d-%02d %02d:%02d:%02d|%04d-%02d-%02d", r.GetYear(), r.GetMonth(), r.GetDay(), r.GetYear(), r.GetMonth(), r.GetDay(), r.GetHour(), r.GetMinute(), r.GetSecond(), r.GetYear(), r.GetMonth(), r.GetDay()); a != b {
						w.Violatef("civil-format", fmt.Sprintf("%d-%d-%d/stepped%d", y, m, d, ri), "a Solar reached by stepping from %s prints %q, its fields say %q", str, a, b)
					}
				}
				w.Eval(11)
			}
			if prev != "" && !(prev < str) {
				w.Violatef("civil-order", fmt.Sprintf("%d-%d-%d", y, m, d), "%q does not sort after the previous day's %q", str, prev)
			}
			prev = str
			w.Eval(3)
			w.Distinct(1)
		}
	}
}

func c19Second(w *W, t ref.Stamp, checkOrder bool) {
	key := fmtStamp(t)
	s := solarOf(t)
	str := s.ToYmdHms()
	g := reYmdHmsP.FindStringSubmatch(str)
	if g == nil || len(str) != 19 {
		w.Violatef("stamp-format", key, "ToYmdHms of %v is %q, not fixed-width YYYY-MM-DD HH:MM:SS", t, str)
		return
	}
	if (ref.Stamp{Y: atoi(g[1]), M: atoi(g[2]), D: atoi(g[3]), H: atoi(g[4]), Mi: atoi(g[5]), S: atoi(g[6])}) != t {
		w.Violatef("stamp-parse", key, "ToYmdHms of %v is %q which does not parse back", t, str)
	}
	if checkOrder && t.Secs() < (ref.Stamp{Y: 9999, M: 12, D: 31, H: 23, Mi: 59, S: 59}).Secs() {
		n := ref.FromSecs(t.Secs() + 1)
		ns := solarOf(n).ToYmdHms()
		if !(str < ns) {
			w.Violatef("stamp-order", key, "%q does not sort before the next second's %q", str, ns)
		}
		w.Eval(1)
	}
	w.Eval(2)
	w.Distinct(1)
}

// c19Printed: rendering -> civil day, for the civil year being walked (nil outside a year walk)
var c19Printed map[string]string

func c19LunarDay(w *W, cy, cm, cd int) {
	key := ymd(cy, cm, cd)
	w.Cur("C19 lunar " + key)
	if (cd+cm)%9 == 0 {
		distract(ref.Stamp{Y: cy, M: cm, D: cd}, cd+cm+cy)
	}
	l := calendar.NewSolarFromYmd(cy, cm, cd).GetLunar()
	y, m, d := l.GetYear(), l.GetMonth(), l.GetDay()
	chk := func(what, str string, wy int) {
		py, pm, pd, e := parseCnDate(str)
		if e != "" {
			w.Violatef("lunar-parse", what+"@"+key, "%s of %s (%d-%d-%d) = %q does not parse: %s", what, key, wy, m, d, str, e)
		} else if py != wy || pm != m || pd != d {
			w.Violatef("lunar-parse", what+"@"+key, "%s of %s = %q parses to %d-%d-%d, the date is %d-%d-%d", what, key, str, py, pm, pd, wy, m, d)
		}
		w.Eval(1)
	}
	// distinct civil days never print alike (judged directly, within the walk of one civil year: parse-back alone cannot see
	// two days that were handed the same year, month and day)
	if c19Printed != nil {
		for kind, s := range map[string]string{"Lunar": l.String(), "Tao": l.GetTao().String(), "Foto": l.GetFoto().String(), "Lunar parts": l.GetYearInChinese() + "年" + l.GetMonthInChinese() + "月" + l.GetDayInChinese()} {
			if prev, ok := c19Printed[kind+"|"+s]; ok && prev != key {
				w.Violatef("print-alike", kind+"@"+key, "%s rendering %q is printed for both %s and %s", kind, s, prev, key)
			}
			c19Printed[kind+"|"+s] = key
		}
		w.Eval(1)
	}
	chk("Lunar.String", l.String(), y)
	chk("year/month/day renderings", l.GetYearInChinese()+"年"+l.GetMonthInChinese()+"月"+l.GetDayInChinese(), y)
	// the Taoist / Buddhist year must be the lunar year plus its fixed offset (the law C17 establishes), not merely what
	// the object's own GetYear() says: otherwise two dates could print alike while each still "parses back to itself"
	t, f := l.GetTao(), l.GetFoto()
	chk("Tao.ToString", t.ToString(), y+2697)
	chk("Tao.String", t.String(), y+2697)
	chk("Foto.ToString", f.ToString(), y+544)
	chk("Foto.String", f.String(), y+544)
	chk("Tao renderings", t.GetYearInChinese()+"年"+t.GetMonthInChinese()+"月"+t.GetDayInChinese(), y+2697)
	chk("Foto renderings", f.GetYearInChinese()+"年"+f.GetMonthInChinese()+"月"+f.GetDayInChinese(), y+544)
	if d == 1 || cd == 1 {
		if mn := calendar.NewLunarMonthFromYm(y, m); mn != nil {
			// "<y>年[闰]<month>月(<n>)天"
			re := regexp.MustCompile(`^(-?\d+)年(闰?)(.+)月\((\d+)\)天$`)
			g := re.FindStringSubmatch(mn.String())
			if g == nil || atoi(strings.TrimPrefix(g[1], "-")) != absInt(y) || (g[2] == "闰") != (m < 0) || cnMonth[g[3]] != absInt(m) || atoi(g[4]) != mn.GetDayCount() {
				w.Violatef("lunar-parse", "LunarMonth.String@"+key, "LunarMonth(%d,%d).String() = %q", y, m, mn.String())
			}
			if ys := calendar.NewLunarYear(y).String(); ys != fmt.Sprint(y) {
				w.Violatef("lunar-parse", "LunarYear.String@"+key, "LunarYear(%d).String() = %q", y, ys)
			}
			w.Eval(2)
		}
	}
	if m < 0 {
		w.Count("leap-month-renderings", 1)
	}
	w.Distinct(1)
}

func c19Run(w *W, c Case) {
	switch c.K {
	case "civil":
		c19Civil(w, c.A[0])
	case "secs":
		w.Class("secs/" + ymd(c.A[0], c.A[1], c.A[2]))
		for sec := 0; sec < 86400; sec++ {
			c19Second(w, ref.Stamp{Y: c.A[0], M: c.A[1], D: c.A[2], H: sec / 3600, Mi: sec % 3600 / 60, S: sec % 60}, true)
		}
		w.Sample("secs", ymd(c.A[0], c.A[1], c.A[2]))
	case "rsecs":
		for i := 0; i < c.A[1]; i++ {
			t := randStamp(w.Rng)
			if i%50 == 0 {
				t.Y = 1 + w.Rng.Intn(12)
			}
			if !ref.Exists(t.Y, t.M, t.D) {
				t.D = 1
			}
			c19Second(w, t, i%4 == 0)
		}
	case "lunar":
		y := c.A[0]
		w.Class(fmt.Sprintf("lunar/century%02d", y/100))
		c19Printed = map[string]string{}
		for j := ref.JDN(y, 1, 1); j <= ref.JDN(y, 12, 31)+45 && j <= ref.MaxJDN; j++ {
			cy, cm, cd := ref.FromJDN(j)
			c19LunarDay(w, cy, cm, cd)
		}
		c19Printed = nil
		if y == 2033 {
			w.Sample("lunar", calendar.NewSolarFromYmd(2033, 12, 25).GetLunar().String())
		}
	case "lunar-turn":
		// every year's turn (25 November to 25 February): the winter months are described by two year tables, and two
		// days that the tables label alike print alike
		y := c.A[0]
		w.Class("lunar/year-turns")
		c19Printed = map[string]string{}
		for j := ref.JDN(y, 11, 25); j <= ref.JDN(y, 11, 25)+92 && j <= ref.MaxJDN; j++ {
			cy, cm, cd := ref.FromJDN(j)
			c19LunarDay(w, cy, cm, cd)
		}
		c19Printed = nil
	case "lunar-one-per-year":
		for y := 1; y <= maxYear; y++ {
			cy, cm, cd := ref.FromJDN(ref.JDN(y, 1, 1) + (y*37)%ref.DaysInYear(y))
			c19LunarDay(w, cy, cm, cd)
		}
	}
}

package main

// C06 - lunar years are well-formed and month navigation is consistent.

import (
	"fmt"

	"github.com/6tail/lunar-go/calendar"
	"lunarmon/ref"
)

func init() {
	register(&Prop{
		ID:   "C06",
		Rule: "cases: one lunar year each (1..9998, all years in both tiers) checked for structure (12/13 months numbered in order, leap directly after its namesake, 29/30 days, contiguity, year length, accessors vs table, agreement with the neighbouring years' tables, New Year's Eve followed by 1/1) plus month walks from that year: Next(n) against a sequence model built from the in-year month lists, Next(n) = Next(1)^n, Next(1).Next(-1) = start. Reform years 8..23 and 236..240 are excluded from the structural rules as the property states. distinct_nontrivial counts distinct lunar years plus distinct (start month, n) walks.",
		Assumptions: []string{
			"the sequence model concatenates LunarYear.GetMonthsInYear() of consecutive years; the library's Next walks the 15-month tables instead",
		},
		Gen: c06Gen, Run: c06Run,
		BlockKind: "lyear", BlockQuick: [2]int{8, 12}, BlockThorough: [2]int{0, 25},
		Exhaustive: func(tier string) bool { return true },
		MinEvals:   map[string]int64{"quick": 300000, "thorough": 1000000},
		Chunks:     128,
	})
}

func c06Gen(g *Gen) []Case {
	return yearCases("lyear", allYears())
}

func isReformYear(y int) bool { return (y >= 8 && y <= 23) || (y >= 236 && y <= 240) }

var c06Cache = map[int][]mrec{}

func c06Months(y int) []mrec {
	if m, ok := c06Cache[y]; ok {
		return m
	}
	m := tableMonths(calendar.NewLunarYear(y), true)
	if len(c06Cache) > 3000 {
		c06Cache = map[int][]mrec{}
	}
	c06Cache[y] = m
	return m
}

// c06Model moves n months from position i of year y along the concatenated in-year lists.
func c06Model(y, i, n int) (int, int, bool) {
	for n > 0 {
		ms := c06Months(y)
		if i+n < len(ms) {
			return y, i + n, true
		}
		n -= len(ms) - i
		y++
		i = 0
		if y > 9999 {
			return 0, 0, false
		}
	}
	for n < 0 {
		if i+n >= 0 {
			return y, i + n, true
		}
		n += i + 1
		y--
		if y < 0 {
			return 0, 0, false
		}
		i = len(c06Months(y)) - 1
	}
	return y, i, true
}

func touchesReform(y0, y1 int) bool {
	if y0 > y1 {
		y0, y1 = y1, y0
	}
	return (y0-1 <= 23 && y1+1 >= 8) || (y0-1 <= 240 && y1+1 >= 236)
}

func c06Run(w *W, c Case) {
	y := c.A[0]
	if y%10 == 1 {
		historyTouch(w, y)
	}
	w.Curf("C06 lunar year %d", y)
	w.Class(fmt.Sprintf("century%02d", y/100))
	ly := calendar.NewLunarYear(y)
	ms := tableMonths(ly, true)
	key := fmt.Sprintf("%d", y)
	reform := isReformYear(y)
	if !reform {
		// structure
		if len(ms) != 12 && len(ms) != 13 {
			w.Violatef("structure", key+"/count", "lunar year %d has %d months", y, len(ms))
		}
		expect := 1
		leaps := 0
		total := 0
		for i, m := range ms {
			if m.month < 0 {
				leaps++
				if i == 0 || ms[i-1].month != -m.month {
					w.Violatef("structure", fmt.Sprintf("%s/leap-place/%d", key, m.month), "leap month %d of %d does not directly follow month %d", m.month, y, -m.month)
				}
			} else {
				if m.month != expect {
					w.Violatef("structure", fmt.Sprintf("%s/numbering/%d", key, i), "month at position %d of %d is numbered %d, expected %d", i, y, m.month, expect)
				}
				expect = m.month + 1
			}
			if m.days != 29 && m.days != 30 {
				w.Violatef("structure", fmt.Sprintf("%s/days/%d", key, m.month), "month %d of %d has %d days", m.month, y, m.days)
			}
			if i > 0 && ms[i-1].jdn+ms[i-1].days != m.jdn {
				w.Violatef("structure", fmt.Sprintf("%s/contiguity/%d", key, m.month), "month %d of %d starts %d days after the start of the previous %d-day month", m.month, y, m.jdn-ms[i-1].jdn, ms[i-1].days)
			}
			total += m.days
		}
		if expect != 13 {
			w.Violatef("structure", key+"/last", "last regular month of %d is %d", y, expect-1)
		}
		if leaps > 1 || (leaps == 1) != (len(ms) == 13) {
			w.Violatef("structure", key+"/leaps", "lunar year %d has %d months and %d leap months", y, len(ms), leaps)
		}
		if !((total >= 353 && total <= 355) || (total >= 383 && total <= 385)) {
			w.Violatef("structure", key+"/length", "lunar year %d is %d days long", y, total)
		}
		w.Class(fmt.Sprintf("months%d/len%d", len(ms), total))
		w.Eval(len(ms) * 4)
	} else {
		w.Count("reform-years-skipped", 1)
	}
	// accessors vs table (all years)
	sum, lm := 0, 0
	for i, m := range ms {
		if !reform {
			if mo := ly.GetMonth(m.month); mo != nil && (mo.GetIndex() != i+1 || mo.GetZhiIndex() != (i+2)%12) {
				w.Violatef("accessors", fmt.Sprintf("%s/index/%d", key, m.month), "month %d of %d is the %d-th of the year but reports index %d, branch index %d", m.month, y, i+1, mo.GetIndex(), mo.GetZhiIndex())
			}
		}
		sum += m.days
		if m.month < 0 {
			lm = -m.month
		}
		got := ly.GetMonth(m.month)
		if got == nil || got.GetYear() != y || got.GetMonth() != m.month || got.GetDayCount() != m.days || int(got.GetFirstJulianDay()+0.5) != m.jdn || got.IsLeap() != (m.month < 0) {
			w.Violatef("accessors", fmt.Sprintf("%s/getmonth/%d", key, m.month), "GetMonth(%d) of %d = %v, table has %+v", m.month, y, got, m)
		}
		// lookups of neighbouring years' months in between (the month numbers an ordinal like year*12+month would
		// confuse with this one come first), then this month again
		am := absInt(m.month)
		for _, o := range [][2]int{{y - 1, 12 - am}, {y - 1, am}, {y + 1, am}, {y + 1, -am}, {y - 1, -am}, {y, -m.month}, {y + 1, 12 - am}, {y - 2, 24 - am}} {
			if o[0] >= minYear && o[0] <= maxYear && o[1] != 0 {
				if om := calendar.NewLunarMonthFromYm(o[0], o[1]); om != nil && (om.GetYear() != o[0] || om.GetMonth() != o[1]) {
					w.Violatef("accessors", fmt.Sprintf("%d/fromym/%d", o[0], o[1]), "NewLunarMonthFromYm(%d,%d) is month %d of year %d", o[0], o[1], om.GetMonth(), om.GetYear())
				}
			}
		}
		fy := calendar.NewLunarMonthFromYm(y, m.month)
		if fy == nil || fy.GetYear() != y || fy.GetMonth() != m.month || fy.GetDayCount() != m.days || int(fy.GetFirstJulianDay()+0.5) != m.jdn {
			w.Violatef("accessors", fmt.Sprintf("%s/fromym/%d", key, m.month), "NewLunarMonthFromYm(%d,%d) = %v, table has %+v", y, m.month, fy, m)
		}
		w.Eval(1)
	}
	if ly.GetDayCount() != sum {
		w.Violatef("accessors", key+"/daycount", "GetDayCount()=%d, months of %d sum to %d", ly.GetDayCount(), y, sum)
	}
	if ly.GetLeapMonth() != lm {
		w.Violatef("accessors", key+"/leapmonth", "GetLeapMonth()=%d, table of %d has leap %d", ly.GetLeapMonth(), y, lm)
	}
	for _, absent := range []int{0, 13, -13, 14} {
		if ly.GetMonth(absent) != nil {
			w.Violatef("accessors", fmt.Sprintf("%s/absent/%d", key, absent), "GetMonth(%d) of %d is not nil", absent, y)
		}
	}
	for mm := -12; mm <= -1; mm++ {
		if mm != -lm && ly.GetMonth(mm) != nil {
			w.Violatef("accessors", fmt.Sprintf("%s/absent/%d", key, mm), "GetMonth(%d) of %d exists but the year's leap month is %d", mm, y, lm)
		}
	}
	w.Eval(len(ms)*2 + 18)
	// neighbouring tables agree on shared months
	full := tableMonths(ly, false)
	for _, m := range full {
		if m.year == y {
			continue
		}
		if m.year < 1 || m.year > maxYear+1 || isReformYear(m.year) || reform {
			continue
		}
		other := c06Months(m.year)
		found := false
		for _, o := range other {
			if o.month == m.month {
				found = true
				if o != m {
					w.Violatef("neighbours", fmt.Sprintf("%s/%d-%d", key, m.year, m.month), "table of %d lists month %+v but the table of %d lists %+v", y, m, m.year, o)
				}
			}
		}
		if !found {
			w.Violatef("neighbours", fmt.Sprintf("%s/%d-%d", key, m.year, m.month), "table of %d lists month %d of %d, which the table of %d does not contain", y, m.month, m.year, m.year)
		}
		w.Eval(1)
	}
	// New Year's Eve -> 1/1
	if len(ms) > 0 && y < maxYear {
		last := ms[len(ms)-1]
		cy, cm, cd := ref.FromJDN(last.jdn + last.days - 1)
		if cy >= minYear && cy <= maxYear {
			eve := calendar.NewSolarFromYmd(cy, cm, cd).GetLunar()
			nx := eve.Next(1)
			okEve := eve.GetYear() == y && eve.GetMonth() == last.month && eve.GetDay() == last.days
			if !reform && !isReformYear(y+1) {
				if !okEve || nx.GetYear() != y+1 || nx.GetMonth() != 1 || nx.GetDay() != 1 {
					w.Violatef("new-year", key, "last day of %d (%s) converts to %d-%d-%d and the next day to %d-%d-%d", y, ymd(cy, cm, cd), eve.GetYear(), eve.GetMonth(), eve.GetDay(), nx.GetYear(), nx.GetMonth(), nx.GetDay())
				}
				first := c06Months(y + 1)
				if len(first) > 0 && (first[0].month != 1 || first[0].jdn != last.jdn+last.days) {
					w.Violatef("new-year", key+"/table", "month 1 of %d starts at JDN %d, the last month of %d ends at %d", y+1, first[0].jdn, y, last.jdn+last.days-1)
				}
			}
			has := false
			for _, f := range listStrings(eve.GetFestivals()) {
				if f == "除夕" {
					has = true
				}
			}
			if !has && okEve {
				w.Violatef("new-year", key+"/chuxi", "no 除夕 among the festivals of the last day of lunar year %d (%s)", y, ymd(cy, cm, cd))
			}
			w.Eval(3)
		}
	}
	// month walks
	nWalks := 3
	if !w.Quick {
		nWalks = 8
	}
	for k := 0; k < nWalks && len(ms) > 0; k++ {
		i := w.Rng.Intn(len(ms))
		var n int
		switch k % 4 {
		case 0:
			n = 1 + w.Rng.Intn(40)
		case 1:
			n = -(1 + w.Rng.Intn(40))
		case 2:
			n = []int{100, -100, 13, -13, 12, -12}[w.Rng.Intn(6)]
		default:
			n = []int{0, 1, -1, 25, -25}[w.Rng.Intn(5)]
			if y%97 == 0 {
				n = []int{1000, -1000, 12345, -12345}[w.Rng.Intn(4)]
			}
		}
		ey, ei, ok := c06Model(y, i, n)
		if !ok || ey < 1 || ey > maxYear || touchesReform(y, ey) {
			continue
		}
		want := c06Months(ey)[ei]
		start := calendar.NewLunarMonthFromYm(y, ms[i].month)
		wkey := fmt.Sprintf("%d/%d%+d", y, ms[i].month, n)
		w.Curf("C06 walk %s", wkey)
		got := start.Next(n)
		if got == nil || got.GetYear() != want.year || got.GetMonth() != want.month || got.GetDayCount() != want.days || int(got.GetFirstJulianDay()+0.5) != want.jdn {
			w.Violatef("walk-model", wkey, "month %d-%d .Next(%d) = %v, sequence model says %+v", y, ms[i].month, n, got, want)
		}
		if absInt(n) <= 40 && n != 0 {
			cur := start
			step := 1
			if n < 0 {
				step = -1
			}
			for s := 0; s < absInt(n) && cur != nil; s++ {
				cur = cur.Next(step)
			}
			if cur == nil || got == nil || cur.GetYear() != got.GetYear() || cur.GetMonth() != got.GetMonth() {
				w.Violatef("walk-compose", wkey, "month %d-%d: Next(%d) = %v but %d single steps reach %v", y, ms[i].month, n, got, absInt(n), cur)
			}
		}
		if f := start.Next(1); f != nil {
			if b := f.Next(-1); b == nil || b.GetYear() != y || b.GetMonth() != ms[i].month {
				w.Violatef("walk-undo", wkey, "month %d-%d: Next(1).Next(-1) = %v", y, ms[i].month, b)
			}
		}
		w.Eval(3)
		w.Distinct(1)
		w.Count("walks", 1)
	}
	// the year object obtained at the start is still this year's table now that the walks above have had other years
	// computed (and the one-slot cache refilled several times): a handle a caller keeps stays valid
	if y+3 <= maxYear {
		calendar.NewLunarYear(y + 3)
	}
	if y-2 >= minYear {
		calendar.NewLunarYear(y - 2)
	}
	if again := tableMonths(ly, true); fmt.Sprint(again) != fmt.Sprint(ms) {
		w.Violatef("held-year", key, "the LunarYear obtained for %d lists %v after other years were computed; when obtained it listed %v", y, again, ms)
	}
	if full := tableMonths(ly, false); len(full) != 15 {
		w.Violatef("held-year", key+"/table", "the LunarYear obtained for %d has a %d-entry table after other years were computed", y, len(full))
	}
	w.Eval(2)
	w.Distinct(1)
	if y == 2033 {
		w.Sample("year", map[string]interface{}{"year": y, "months": ms})
	}
}

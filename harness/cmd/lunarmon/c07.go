package main

// C07 - constructors accept exactly the dates that exist and never build an invalid one.

import (
	"fmt"
	"time"

	"github.com/6tail/lunar-go/calendar"
	"lunarmon/ref"
)

func init() {
	register(&Prop{
		ID:   "C07",
		Rule: "cases: 'civil' one year each (every year, both tiers): NewSolar/NewSolarFromYmd over months -1..14 x days -1..33 must succeed exactly on existing dates; 'time': hour -1..24 x minute -1..60 x second -1..60 on fixed dates for NewSolar, NewLunar, NewLunarTime; 'lunar' one lunar year each: NewLunar/NewLunarFromYmd/NewLunarTime/NewTao/NewFoto over months -13..13 x days 0..31 must succeed exactly for triples of the year's month table (and the accepted object must convert to a civil day and back to the same triple); 'prog': seeded chains of 5..40 public stepping/conversion calls, every Solar/Lunar produced is validated against RefCal and the month table. distinct_nontrivial counts distinct argument tuples plus distinct program steps.",
		Assumptions: []string{
			"validity of a civil tuple is RefCal.Exists plus time ranges; validity of a lunar triple is membership in LunarYear.GetMonthsInYear with 1 <= day <= day count (tied to the conversion image by C01's walk)",
			"a panic inside a program step counts only when the reference result lies in years 1..9998",
		},
		Gen: c07Gen, Run: c07Run,
		Exhaustive: func(tier string) bool { return false },
		MinEvals:   map[string]int64{"quick": 5000000, "thorough": 15000000},
		Chunks:     128,
	})
}

func c07Gen(g *Gen) []Case {
	cs := yearCases("civil", allYears())
	for _, d := range [][3]int{{2024, 2, 29}, {1582, 10, 15}, {1, 1, 1}} {
		cs = append(cs, Case{K: "time", A: []int{d[0], d[1], d[2]}})
	}
	if g.Quick {
		cs = append(cs, yearCases("lunar", sampleYears(g.Rng, 300, true))...)
		cs = append(cs, batchCases("prog", 40, 50)...)
	} else {
		cs = append(cs, yearCases("lunar", allYears())...)
		cs = append(cs, batchCases("prog", 500, 100)...)
	}
	return cs
}

func c07Run(w *W, c Case) {
	switch c.K {
	case "civil":
		c07Civil(w, c.A[0])
	case "time":
		c07Time(w, c.A[0], c.A[1], c.A[2])
	case "lunar":
		c07Lunar(w, c.A[0])
	case "prog":
		for i := 0; i < c.A[1]; i++ {
			c07Program(w, c.A[0]*100000+i)
		}
		for i := 0; i < 40; i++ {
			c07FromDate(w)
		}
	}
}

func c07Civil(w *W, y int) {
	w.Class(fmt.Sprintf("civil/century%02d", y/100))
	for m := -1; m <= 14; m++ {
		for d := -1; d <= 33; d++ {
			want := ref.Exists(y, m, d)
			w.Curf("C07 NewSolar(%d,%d,%d)", y, m, d)
			var s, s2 *calendar.Solar
			pv := Call(func() { s = calendar.NewSolar(y, m, d, 12, 30, 30) })
			pv2 := Call(func() { s2 = calendar.NewSolarFromYmd(y, m, d) })
			if (pv == nil) != want || (pv2 == nil) != want {
				w.Violatef("civil-accept", fmt.Sprintf("%d/%d/%d", y, m, d), "NewSolar(%d,%d,%d,..) accepted=%v, NewSolarFromYmd accepted=%v, the date exists=%v", y, m, d, pv == nil, pv2 == nil, want)
			} else if want && (stampOf(s) != ref.Stamp{Y: y, M: m, D: d, H: 12, Mi: 30, S: 30} || stampOf(s2) != ref.Stamp{Y: y, M: m, D: d}) {
				w.Violatef("civil-fields", fmt.Sprintf("%d/%d/%d", y, m, d), "NewSolar(%d,%d,%d,12,30,30) holds %s", y, m, d, s.ToYmdHms())
			}
			w.Eval(2)
			w.Distinct(1)
		}
	}
}

func c07Time(w *W, y, m, d int) {
	w.Class("time-box")
	l := calendar.NewSolarFromYmd(y, m, d).GetLunar()
	ly, lm, ld := l.GetYear(), l.GetMonth(), l.GetDay()
	for h := -1; h <= 24; h++ {
		for mi := -1; mi <= 60; mi++ {
			for s := -1; s <= 60; s++ {
				want := h >= 0 && h <= 23 && mi >= 0 && mi <= 59 && s >= 0 && s <= 59
				w.Curf("C07 time %d-%d-%d %d:%d:%d", y, m, d, h, mi, s)
				pv := Call(func() { calendar.NewSolar(y, m, d, h, mi, s) })
				if (pv == nil) != want {
					w.Violatef("time-accept", fmt.Sprintf("solar/%d:%d:%d", h, mi, s), "NewSolar(%d,%d,%d,%d,%d,%d) accepted=%v, valid=%v", y, m, d, h, mi, s, pv == nil, want)
				}
				w.Eval(1)
				if edgeVal(h, 23) && edgeVal(mi, 59) && edgeVal(s, 59) {
					pl := Call(func() { calendar.NewLunar(ly, lm, ld, h, mi, s) })
					pt := Call(func() { calendar.NewLunarTime(ly, lm, ld, h, mi, s) })
					if (pl == nil) != want || (pt == nil) != want {
						w.Violatef("time-accept", fmt.Sprintf("lunar/%d:%d:%d", h, mi, s), "NewLunar(%d,%d,%d,%d,%d,%d) accepted=%v NewLunarTime accepted=%v, valid=%v", ly, lm, ld, h, mi, s, pl == nil, pt == nil, want)
					}
					w.Eval(2)
				}
				w.Distinct(1)
			}
		}
	}
}

func edgeVal(v, max int) bool { return v <= 1 || v >= max-1 || v == max/2 }

func c07Lunar(w *W, y int) {
	w.Class(fmt.Sprintf("lunar/century%02d", y/100))
	ms := tableMonths(calendar.NewLunarYear(y), true)
	days := map[int]int{}
	for _, m := range ms {
		days[m.month] = m.days
	}
	for m := -13; m <= 13; m++ {
		for d := 0; d <= 31; d++ {
			dc, ok := days[m]
			want := ok && d >= 1 && d <= dc
			key := fmt.Sprintf("%d/%d/%d", y, m, d)
			w.Curf("C07 NewLunar(%d,%d,%d)", y, m, d)
			var l *calendar.Lunar
			pv := Call(func() { l = calendar.NewLunar(y, m, d, 23, 59, 59) })
			pv2 := Call(func() { calendar.NewLunarFromYmd(y, m, d) })
			if (pv == nil) != want || (pv2 == nil) != want {
				w.Violatef("lunar-accept", key, "NewLunar(%d,%d,%d,..) accepted=%v NewLunarFromYmd accepted=%v, the month table of %d says valid=%v (month present=%v, %d days)", y, m, d, pv == nil, pv2 == nil, y, want, ok, dc)
			} else if want {
				s := l.GetSolar()
				st := stampOf(s)
				b := s.GetLunar()
				if !st.Valid() || st.H != 23 || st.Mi != 59 || st.S != 59 || b.GetYear() != y || b.GetMonth() != m || b.GetDay() != d || l.GetYear() != y || l.GetMonth() != m || l.GetDay() != d {
					w.Violatef("lunar-image", key, "NewLunar(%d,%d,%d,23,59,59) has civil %s which converts back to %d-%d-%d", y, m, d, s.ToYmdHms(), b.GetYear(), b.GetMonth(), b.GetDay())
				}
			}
			w.Eval(2)
			// stepping out of the end of a month (and back into it from the start): the object reached is a lunar date that exists
			if want && pv == nil && (d >= dc-2 || d <= 2) {
				for _, n := range []int{1, 2, 3, -1, -2, -3, 29 - d, 30 - d} {
					var ln *calendar.Lunar
					if pn := Call(func() { ln = l.Next(n) }); pn != nil {
						w.Violatef("prog-panic", fmt.Sprintf("%s/next%+d", key, n), "NewLunar(%d,%d,%d,..).Next(%d) panicked: %v", y, m, d, n, pn)
					} else {
						c07CheckLunar(w, ln, fmt.Sprintf("NewLunar(%d,%d,%d,..).Next(%d)", y, m, d, n))
					}
					w.Eval(1)
				}
			}
			// hour object, Taoist and Buddhist constructors on a thinned grid (all rejects near the edges, every 3rd accept)
			edge := d <= 1 || d >= 29 || !ok
			if edge || (m+d)%3 == 0 {
				pt := Call(func() { calendar.NewLunarTime(y, m, d, 0, 0, 0) })
				var tao *calendar.Tao
				var foto *calendar.Foto
				pa := Call(func() { tao = calendar.NewTao(y+2697, m, d, 1, 2, 3) })
				pa2 := Call(func() { calendar.NewTaoFromYmd(y+2697, m, d) })
				pf := Call(func() { foto = calendar.NewFoto(y+544, m, d, 1, 2, 3) })
				pf2 := Call(func() { calendar.NewFotoFromYmd(y+544, m, d) })
				if (pt == nil) != want || (pa == nil) != want || (pa2 == nil) != want || (pf == nil) != want || (pf2 == nil) != want {
					w.Violatef("lunar-accept", key+"/tao-foto", "for lunar %d-%d-%d (valid=%v): NewLunarTime accepted=%v NewTao=%v NewTaoFromYmd=%v NewFoto=%v NewFotoFromYmd=%v", y, m, d, want, pt == nil, pa == nil, pa2 == nil, pf == nil, pf2 == nil)
				} else if want {
					if tao.GetYear() != y+2697 || tao.GetMonth() != m || tao.GetDay() != d || foto.GetYear() != y+544 || foto.GetMonth() != m || foto.GetDay() != d {
						w.Violatef("lunar-image", key+"/tao-foto", "NewTao(%d,%d,%d) reports %d-%d-%d; NewFoto(%d,%d,%d) reports %d-%d-%d", y+2697, m, d, tao.GetYear(), tao.GetMonth(), tao.GetDay(), y+544, m, d, foto.GetYear(), foto.GetMonth(), foto.GetDay())
					}
				}
				w.Eval(5)
			}
			w.Distinct(1)
		}
	}
}

// c07FromDate: the time.Time based constructors copy the civil fields of the time value.
func c07FromDate(w *W) {
	rng := w.Rng
	y := 1583 + rng.Intn(8400)
	if rng.Intn(4) == 0 {
		y = []int{1583, 1600, 1900, 2000, 2024, 2100, 9998}[rng.Intn(7)]
	}
	// Go's time is proleptic Gregorian, but the constructors only copy the fields: before the switch any field
	// combination valid in both calendars (days 1..28, not the ten dropped days) must be taken over unchanged too
	early := rng.Intn(4) == 0
	if early {
		y = 1 + rng.Intn(1582)
	}
	m := 1 + rng.Intn(12)
	if rng.Intn(3) == 0 {
		m = []int{1, 2, 12}[rng.Intn(3)]
	}
	d := 1 + rng.Intn(ref.LastDayOfMonth(y, m))
	if rng.Intn(3) == 0 {
		d = ref.LastDayOfMonth(y, m)
	}
	if early {
		d = 1 + rng.Intn(28)
		if y == 1582 && m == 10 && d > 4 && d < 15 {
			d = 15
		}
	}
	st := ref.Stamp{Y: y, M: m, D: d, H: rng.Intn(24), Mi: rng.Intn(60), S: rng.Intn(60)}
	if rng.Intn(5) == 0 {
		st.H, st.Mi, st.S = 23, 59, 59
	}
	// the fields are read in the time's own location, whatever the machine's zone, and a sub-second part never rounds up
	loc := []*time.Location{time.Local, time.UTC, time.FixedZone("UTC+8", 8*3600), time.FixedZone("UTC-5", -5*3600), time.FixedZone("UTC+5:45", 5*3600+45*60)}[rng.Intn(5)]
	nanos := []int{999, 0, 499999999, 500000000, 999999999}[rng.Intn(5)]
	tm := time.Date(st.Y, time.Month(st.M), st.D, st.H, st.Mi, st.S, nanos, loc)
	key := fmtStamp(st)
	w.Cur("C07 from time.Time " + key)
	s := calendar.NewSolarFromDate(tm)
	l := calendar.NewLunarFromDate(tm)
	if stampOf(s) != st || stampOf(l.GetSolar()) != st {
		w.Violatef("from-date", key, "NewSolarFromDate(%s) = %s, NewLunarFromDate(...).GetSolar() = %s", key, s.ToYmdHms(), l.GetSolar().ToYmdHms())
	}
	if a, b := digest1(s), digest1(solarOf(st)); a != b {
		w.Violatef("from-date", key+"/solar-digest", "NewSolarFromDate(%s in %s) differs from NewSolar of the same fields: %s", key, loc, diffDigests(b, a))
	}
	want := solarOf(st).GetLunar()
	if a, b := digest1(l), digest1(want); a != b {
		w.Violatef("from-date", key+"/lunar-digest", "NewLunarFromDate(%s in %s) differs from the conversion of the same civil fields: %s", key, loc, diffDigests(b, a))
	}
	if l.GetYear() != want.GetYear() || l.GetMonth() != want.GetMonth() || l.GetDay() != want.GetDay() || l.GetTimeInGanZhi() != want.GetTimeInGanZhi() {
		w.Violatef("from-date", key+"/lunar", "NewLunarFromDate(%s) = %d-%d-%d, the conversion of the same civil fields is %d-%d-%d", key, l.GetYear(), l.GetMonth(), l.GetDay(), want.GetYear(), want.GetMonth(), want.GetDay())
	}
	start := rng.Intn(7)
	wk := calendar.NewSolarWeekFromDate(tm, start)
	mo := calendar.NewSolarMonthFromDate(tm)
	se := calendar.NewSolarSeasonFromDate(tm)
	hy := calendar.NewSolarHalfYearFromDate(tm)
	yr := calendar.NewSolarYearFromDate(tm)
	if wk.GetYear() != st.Y || wk.GetMonth() != st.M || wk.GetDay() != st.D || wk.GetIndex() != weekIndexInMonth(st.Y, st.M, st.D, start) || mo.GetYear() != st.Y || mo.GetMonth() != st.M || se.GetYear() != st.Y || se.GetMonth() != st.M || se.GetIndex() != (st.M-1)/3+1 || hy.GetYear() != st.Y || hy.GetMonth() != st.M || hy.GetIndex() != (st.M-1)/6+1 || yr.GetYear() != st.Y {
		w.Violatef("from-date", key+"/units", "unit constructors from time %s: week %d-%d-%d idx %d, month %d-%d, season %d-%d, half-year %d-%d, year %d", key, wk.GetYear(), wk.GetMonth(), wk.GetDay(), wk.GetIndex(), mo.GetYear(), mo.GetMonth(), se.GetYear(), se.GetMonth(), hy.GetYear(), hy.GetMonth(), yr.GetYear())
	}
	w.Eval(4)
	w.Distinct(1)
	w.Count("from-time-constructors", 1)
}

// ---- program fuzzer

func validSolar(s *calendar.Solar) bool { return s != nil && stampOf(s).Valid() }

func c07CheckLunar(w *W, l *calendar.Lunar, ctx string) {
	if l == nil {
		w.Violatef("prog-object", ctx, "%s produced a nil Lunar", ctx)
		return
	}
	mn := calendar.NewLunarMonthFromYm(l.GetYear(), l.GetMonth())
	if mn == nil || l.GetDay() < 1 || l.GetDay() > mn.GetDayCount() || !validSolar(l.GetSolar()) || l.GetHour() != l.GetSolar().GetHour() || l.GetMinute() != l.GetSolar().GetMinute() || l.GetSecond() != l.GetSolar().GetSecond() {
		w.Violatef("prog-object", ctx, "%s produced lunar %d-%d-%d %02d:%02d:%02d (civil %v) whose fields fail the month table / time rules", ctx, l.GetYear(), l.GetMonth(), l.GetDay(), l.GetHour(), l.GetMinute(), l.GetSecond(), l.GetSolar())
	}
	w.Eval(1)
}

func c07Program(w *W, id int) {
	rng := w.Rng
	cur := randStamp(rng)
	steps := 5 + rng.Intn(36)
	trace := fmtStamp(cur)
	for i := 0; i < steps; i++ {
		if cur.Y < 3 || cur.Y > 9996 {
			cur = randStamp(rng)
			trace += " | restart " + fmtStamp(cur)
		}
		s := solarOf(cur)
		j := ref.JDN(cur.Y, cur.M, cur.D)
		op := rng.Intn(18)
		var out *calendar.Solar
		var want *ref.Stamp
		name := ""
		skip := false
		pv := Call(func() {
			switch op {
			case 0:
				n := rng.Intn(2001) - 1000
				name = fmt.Sprintf("NextDay(%d)", n)
				if j+n < ref.MinJDN || j+n > ref.MaxJDN {
					skip = true
					return
				}
				y, m, d := ref.FromJDN(j + n)
				want = &ref.Stamp{Y: y, M: m, D: d, H: cur.H, Mi: cur.Mi, S: cur.S}
				out = s.NextDay(n)
			case 1:
				n := rng.Intn(61) - 30
				name = fmt.Sprintf("Next(%d,true)", n)
				out = s.Next(n, true)
			case 2:
				n := rng.Intn(100001) - 50000
				name = fmt.Sprintf("NextHour(%d)", n)
				ts := cur.Secs() + int64(n)*3600
				t := ref.FromSecs(ts)
				if t.Y < 1 || t.Y > 9998 {
					skip = true
					return
				}
				want = &t
				out = s.NextHour(n)
			case 3:
				n := rng.Intn(2401) - 1200
				name = fmt.Sprintf("NextMonth(%d)", n)
				ty := floorDivI(cur.Y*12+cur.M-1+n, 12)
				if ty < 1 || ty > 9998 {
					skip = true
					return
				}
				out = s.NextMonth(n)
			case 4:
				n := rng.Intn(401) - 200
				name = fmt.Sprintf("NextYear(%d)", n)
				if cur.Y+n < 1 || cur.Y+n > 9998 {
					skip = true
					return
				}
				out = s.NextYear(n)
			case 5:
				name = "GetLunar().GetSolar()"
				l := s.GetLunar()
				c07CheckLunar(w, l, trace+" -> GetLunar()")
				out = l.GetSolar()
				want = &cur
			case 6:
				n := rng.Intn(801) - 400
				name = fmt.Sprintf("GetLunar().Next(%d).GetSolar()", n)
				if j+n < ref.MinJDN || j+n > ref.MaxJDN {
					skip = true
					return
				}
				l := s.GetLunar().Next(n)
				c07CheckLunar(w, l, trace+" -> "+name)
				out = l.GetSolar()
				y, m, d := ref.FromJDN(j + n)
				want = &ref.Stamp{Y: y, M: m, D: d, H: cur.H, Mi: cur.Mi, S: cur.S}
			case 7:
				delta := (rng.Float64() - 0.5) * 3
				name = fmt.Sprintf("NewSolarFromJulianDay(JD%+.6f)", delta)
				out = calendar.NewSolarFromJulianDay(s.GetJulianDay() + delta)
			case 8:
				name = "SolarMonth.GetDays() element"
				l := calendar.NewSolarMonthFromYm(cur.Y, cur.M).GetDays()
				k := rng.Intn(l.Len())
				e := l.Front()
				for ; k > 0; k-- {
					e = e.Next()
				}
				out = e.Value.(*calendar.Solar)
			case 9:
				start := rng.Intn(7)
				name = fmt.Sprintf("SolarWeek(start %d) first day / first day in month / last day", start)
				wk := calendar.NewSolarWeekFromYmd(cur.Y, cur.M, cur.D, start)
				fd := wk.GetFirstDay()
				fim := wk.GetFirstDayInMonth()
				if !validSolar(fd) || !validSolar(fim) {
					w.Violatef("prog-object", trace+" -> "+name, "%s -> %s produced %v / %v", trace, name, fd, fim)
				}
				out = wk.GetDays().Back().Value.(*calendar.Solar)
			case 10:
				name = "GetLunar().GetNextJie().GetSolar()"
				out = s.GetLunar().GetNextJie().GetSolar()
			case 11:
				name = "GetLunar().GetPrevJieQi().GetSolar()"
				out = s.GetLunar().GetPrevJieQi().GetSolar()
			case 12:
				g, sect := rng.Intn(2), 1+rng.Intn(2)
				name = fmt.Sprintf("EightChar.GetYunBySect(%d,%d).GetStartSolar()", g, sect)
				out = s.GetLunar().GetEightChar().GetYunBySect(g, sect).GetStartSolar()
			case 13:
				name = "first day of the lunar month"
				l := s.GetLunar()
				mn := calendar.NewLunarMonthFromYm(l.GetYear(), l.GetMonth())
				out = calendar.NewSolarFromJulianDay(mn.GetFirstJulianDay())
			case 14:
				n := rng.Intn(25) - 12
				name = fmt.Sprintf("lunar month Next(%d) first day -> NewLunar(...).GetSolar()", n)
				l := s.GetLunar()
				mn := calendar.NewLunarMonthFromYm(l.GetYear(), l.GetMonth()).Next(n)
				l2 := calendar.NewLunar(mn.GetYear(), mn.GetMonth(), mn.GetDayCount(), cur.H, cur.Mi, cur.S)
				c07CheckLunar(w, l2, trace+" -> "+name)
				out = l2.GetSolar()
			case 16, 17:
				// a caller inspects the year (every accessor of the cached year object and of its months, printing included),
				// then converts a date of that year: half of the time one from the weeks before the lunar New Year
				name = "inspect LunarYear, then GetLunar().GetSolar()"
				if op == 17 {
					cur.M, cur.D = 1+rng.Intn(2), 1+rng.Intn(28)
					name = fmt.Sprintf("inspect LunarYear, then %s GetLunar().GetSolar()", fmtStamp(cur))
					s = solarOf(cur)
				}
				prodCache(cur.Y)
				l := s.GetLunar()
				c07CheckLunar(w, l, trace+" -> "+name)
				prodCache(l.GetYear())
				l2 := calendar.NewLunar(l.GetYear(), l.GetMonth(), l.GetDay(), cur.H, cur.Mi, cur.S)
				c07CheckLunar(w, l2, trace+" -> "+name+" -> NewLunar")
				out = l2.GetSolar()
				want = &cur
			case 15:
				name = "Tao/Foto round trip"
				l := s.GetLunar()
				t := l.GetTao()
				f := l.GetFoto()
				t2 := calendar.NewTao(t.GetYear(), t.GetMonth(), t.GetDay(), cur.H, cur.Mi, cur.S)
				f2 := calendar.NewFoto(f.GetYear(), f.GetMonth(), f.GetDay(), cur.H, cur.Mi, cur.S)
				c07CheckLunar(w, t2.GetLunar(), trace+" -> NewTao")
				c07CheckLunar(w, f2.GetLunar(), trace+" -> NewFoto")
				if stampOf(f2.GetLunar().GetSolar()) != cur {
					w.Violatef("prog-object", trace+" -> "+name, "%s -> NewFoto(%d,%d,%d) is civil %s", trace, f.GetYear(), f.GetMonth(), f.GetDay(), f2.GetLunar().GetSolar().ToYmdHms())
				}
				out = t2.GetLunar().GetSolar()
				want = &cur
			}
		})
		w.Cur("C07 program " + trace + " -> " + name)
		if skip {
			continue
		}
		step := trace + " -> " + name
		if len(step) > 600 {
			step = "..." + step[len(step)-600:]
		}
		if pv != nil {
			w.Violatef("prog-panic", fmt.Sprintf("%d/%d", id, i), "program %s panicked: %v", step, pv)
			cur = randStamp(rng)
			trace = fmtStamp(cur)
			continue
		}
		w.Eval(1)
		w.Distinct(1)
		w.Count("program-steps", 1)
		if !validSolar(out) {
			w.Violatef("prog-object", fmt.Sprintf("%d/%d", id, i), "program %s produced invalid civil date-time %v", step, out)
			cur = randStamp(rng)
			trace = fmtStamp(cur)
			continue
		}
		if want != nil && stampOf(out) != *want {
			w.Violatef("prog-result", fmt.Sprintf("%d/%d", id, i), "program %s produced %s, reference %s", step, out.ToYmdHms(), fmtStamp(*want))
		}
		cur = stampOf(out)
		trace += " -> " + name
		if len(trace) > 400 {
			trace = "..." + trace[len(trace)-400:]
		}
	}
	if id%100000 == 0 {
		w.Sample("prog", trace)
	}
}

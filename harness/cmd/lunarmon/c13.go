package main

// C13 - seasonal counters and movable festivals follow their term-and-stem rules.

import (
	"fmt"

	"github.com/6tail/lunar-go/LunarUtil"
	"github.com/6tail/lunar-go/calendar"
	"lunarmon/ref"
)

func init() {
	register(&Prop{
		ID:   "C13",
		Rule: "cases: one civil year each; every day of the year is judged: nine-nines (81 days from the latest winter-solstice day, groups of nine, absent otherwise), dog days (from the 3rd geng day on/after the summer solstice, middle period until the first geng day on/after Liqiu - 10 or 20 days -, last period 10 days, index +1 per day, absent otherwise), pentads (min((d-P)/5, 2) from the latest term day P, mapped in order onto the 72 names), New Year's Eve on exactly the last day of the lunar year, Cold Food the day before Qingming, spring/autumn She on the 5th wu day from Lichun/Liqiu. Term days come from the object's own table, day stems from the JDN. distinct_nontrivial counts distinct civil days judged.",
		Assumptions: []string{
			"term civil days are read from the object's term table (validated by C03); day stems from RefGZ",
			"the 72 phenological names and the pentad labels are read from the library's exported lists (order as shipped)",
		},
		Gen: c13Gen, Run: c13Run,
		BlockKind: "year", BlockQuick: [2]int{8, 8}, BlockThorough: [2]int{0, 25},
		Exhaustive: func(tier string) bool { return tier == "thorough" },
		MinEvals:   map[string]int64{"quick": 400000, "thorough": 20000000},
		Chunks:     128,
	})
}

func c13Gen(g *Gen) []Case {
	if g.Quick {
		return yearCases("year", sampleYears(g.Rng, 500, true))
	}
	return yearCases("year", allYears())
}

var cnNum = []string{"〇", "一", "二", "三", "四", "五", "六", "七", "八", "九"}

func firstStemOnOrAfter(jdn, stem int) int {
	return jdn + modI(stem-ref.DayPair(jdn)%10, 10)
}

func c13Run(w *W, c Case) {
	y := c.A[0]
	w.Class(fmt.Sprintf("century%02d", y/100))
	historyTouch(w, y)
	base := calendar.NewSolarFromYmd(y, 6, 15).GetLunar()
	tbl := base.GetJieQiTable()
	type td struct {
		idx, j int
	}
	var terms []td
	for i, k := range termKeys31 {
		e := tbl[k]
		if e == nil {
			w.Violatef("table", fmt.Sprintf("%d/%s", y, k), "term table of %d lacks %s", y, k)
			return
		}
		terms = append(terms, td{i, ref.JDN(e.GetYear(), e.GetMonth(), e.GetDay())})
	}
	day := func(pos int) int { return terms[pos].j }
	// positions: 1 冬至(prev), 4 立春, 8 清明, 13 夏至, 16 立秋, 25 DONG_ZHI
	fuStart := firstStemOnOrAfter(day(13), 6) + 20
	fuLast := firstStemOnOrAfter(day(16), 6)
	if fuLast-(fuStart+10) != 10 && fuLast-(fuStart+10) != 20 {
		w.Violatef("fu", fmt.Sprintf("%d/middle-length", y), "middle dog-day period of %d would last %d days by the rule", y, fuLast-(fuStart+10))
	}
	she1 := firstStemOnOrAfter(day(4), 4) + 40
	she2 := firstStemOnOrAfter(day(16), 4) + 40
	j0, j1 := ref.JDN(y, 1, 1), ref.JDN(y, 12, 31)
	var prevL *calendar.Lunar
	prevHadChuxi := false
	prevKey := ""
	prevFu, prevSj := 0, 0
	for j := j0; j <= j1+1; j++ {
		cy, cm, cd := ref.FromJDN(j)
		if cy > maxYear+1 {
			break
		}
		key := ymd(cy, cm, cd)
		w.Cur("C13 day " + key)
		if j%7 == 0 {
			distract(ref.Stamp{Y: cy, M: cm, D: cd, H: 12}, j/7)
		}
		l := calendar.NewSolar(cy, cm, cd, (j*7)%24, 30, 0).GetLunar()
		if j%2 == 0 {
			// a caller that has already asked the same object for its neighbouring terms (by the instant and by the day)
			l.GetPrevJieQi()
			l.GetNextJieQi()
			l.GetPrevJie()
			l.GetNextQi()
			if j%4 == 0 {
				l.GetPrevJieQiByWholeDay(false)
				l.GetNextJieQiByWholeDay(false)
			}
		}
		// New Year's Eve of the previous day is decided now
		if prevL != nil {
			last := l.GetYear() != prevL.GetYear()
			if last != prevHadChuxi {
				w.Violatef("chuxi", prevKey, "%s (lunar %d-%d-%d) is followed by lunar %d-%d-%d; 除夕 reported=%v", prevKey, prevL.GetYear(), prevL.GetMonth(), prevL.GetDay(), l.GetYear(), l.GetMonth(), l.GetDay(), prevHadChuxi)
			}
			if last {
				w.Count("lunar-year-ends", 1)
			}
			w.Eval(1)
		}
		if j > j1 {
			break
		}
		// nine-nines
		ws := day(1)
		if j >= day(25) {
			ws = day(25)
		}
		sj := l.GetShuJiu()
		d := j - ws
		if d >= 0 && d < 81 {
			if sj == nil || sj.GetName() != cnNum[d/9+1]+"九" || sj.GetIndex() != d%9+1 {
				w.Violatef("shujiu", key, "%s is day %d after the winter-solstice day: got %v, rule says %s day %d", key, d, sj, cnNum[d/9+1]+"九", d%9+1)
			}
			if prevSj > 0 && d > 0 && sj != nil && !(sj.GetIndex() == prevSj+1 || (prevSj == 9 && sj.GetIndex() == 1)) {
				w.Violatef("shujiu", key+"/seq", "nine-nines index went from %d to %d", prevSj, sj.GetIndex())
			}
			w.Count("shujiu-days", 1)
		} else if sj != nil {
			w.Violatef("shujiu", key, "%s is %d days from the winter-solstice day but reports %s day %d", key, d, sj.GetName(), sj.GetIndex())
		}
		prevSj = 0
		if sj != nil {
			prevSj = sj.GetIndex()
		}
		// dog days
		fu := l.GetFu()
		wantName, wantIdx := "", 0
		switch {
		case j >= fuStart && j < fuStart+10:
			wantName, wantIdx = "初伏", j-fuStart+1
		case j >= fuStart+10 && j < fuLast:
			wantName, wantIdx = "中伏", j-(fuStart+10)+1
		case j >= fuLast && j < fuLast+10:
			wantName, wantIdx = "末伏", j-fuLast+1
		}
		if wantName == "" {
			if fu != nil {
				w.Violatef("fu", key, "%s is outside the dog days (start %d days away) but reports %s day %d", key, j-fuStart, fu.GetName(), fu.GetIndex())
			}
		} else {
			if fu == nil || fu.GetName() != wantName || fu.GetIndex() != wantIdx {
				w.Violatef("fu", key, "%s: got %v, rule says %s day %d (first period starts on the 3rd geng day on/after the summer solstice, last on the first geng day on/after Liqiu)", key, fu, wantName, wantIdx)
			}
			w.Count("fu-days", 1)
		}
		_ = prevFu
		// pentads
		pi := -1
		for i, t := range terms {
			if t.j <= j {
				pi = i
			}
		}
		if pi < 0 {
			w.Violatef("hou", key, "no term day at or before %s in its own year's table", key)
		} else {
			k := (j - terms[pi].j) / 5
			if k > 2 {
				k = 2
			}
			name := termCN31[terms[pi].idx]
			ti := 0
			for i, v := range termNames24 {
				if v == name {
					ti = i
				}
			}
			if got, want := l.GetWuHou(), LunarUtil.WU_HOU[(ti*3+k)%72]; got != want {
				w.Violatef("wuhou", key, "%s is day %d of %s: GetWuHou=%s, rule says %s", key, j-terms[pi].j, name, got, want)
			}
			if got, want := l.GetHou(), name+" "+LunarUtil.HOU[k]; got != want {
				w.Violatef("hou", key, "%s is day %d of %s: GetHou=%q, rule says %q", key, j-terms[pi].j, name, got, want)
			}
			if j-terms[pi].j >= 15 {
				w.Count("third-pentad-remainder-days", 1)
			}
		}
		// Cold Food and She days
		of := map[string]bool{}
		for _, f := range listStrings(l.GetOtherFestivals()) {
			of[f] = true
		}
		if (j == day(8)-1) != of["寒食节"] {
			w.Violatef("hanshi", key, "%s: 寒食节 reported=%v, Qingming day is %d days away", key, of["寒食节"], day(8)-j)
		}
		if (j == she1) != of["春社"] {
			w.Violatef("she", key+"/spring", "%s: 春社 reported=%v, the 5th wu day from Lichun is %d days away", key, of["春社"], she1-j)
		}
		if (j == she2) != of["秋社"] {
			w.Violatef("she", key+"/autumn", "%s: 秋社 reported=%v, the 5th wu day from Liqiu is %d days away", key, of["秋社"], she2-j)
		}
		prevHadChuxi = false
		for _, f := range listStrings(l.GetFestivals()) {
			if f == "除夕" {
				prevHadChuxi = true
			}
		}
		prevL, prevKey = l, key
		w.Eval(8)
		w.Distinct(1)
	}
	if y == 2024 {
		fy, fm, fd := ref.FromJDN(fuStart)
		sy, sm, sd := ref.FromJDN(she1)
		w.Sample("year", map[string]interface{}{"year": y, "first_dog_day": ymd(fy, fm, fd), "middle_period_days": fuLast - fuStart - 10, "spring_she": ymd(sy, sm, sd)})
	}
}

package main

// C11 - alternative routes to the same fact give the same answer.

import (
	"fmt"
	"strings"

	"github.com/6tail/lunar-go/LunarUtil"
	"github.com/6tail/lunar-go/calendar"
	"lunarmon/ref"
)

func init() {
	register(&Prop{
		ID:   "C11",
		Rule: "cases: one civil year each (moments: every Jie day before and after the instant, the December-solstice day to 31 December, lunar New Year +-1, 23:xx, plus seeded moments at the boundary times) and seeded batches. At each moment a table of documented-equivalent routes is compared by value (hour object vs Lunar hour accessors, the 13 hour objects of the day vs per-hour construction, LunarYear vs New-Year-based year accessors, deprecated aliases, default school vs explicit school, Desc accessors vs the description table), and for EightChar under sect 1 and 2 every derived attribute of each pillar is recomputed in the harness from the reported pillar strings (five elements, life stage, xun / empty branches, tai-yuan, tai-xi from rules; nayin, ten-gods, hidden stems by direct lookup in the exported tables) with a functional-dependency monitor keyed by (sect-independent) four pillars. distinct_nontrivial counts distinct (moment, sect) charts plus distinct moments.",
		Assumptions: []string{
			"pairs of routes come from the API's own documentation (deprecated-alias comments, 'BySect' defaults)",
			"nayin / ten-god / hidden-stem data tables are the library's exported maps; the monitor judges which pillar is fed to them, not the data",
		},
		Gen: c11Gen, Run: c11Run,
		Exhaustive: func(tier string) bool { return false },
		MinEvals:   map[string]int64{"quick": 500000, "thorough": 10000000},
		Chunks:     128,
	})
}

func c11Gen(g *Gen) []Case {
	if g.Quick {
		cs := yearCases("year", sampleYears(g.Rng, 120, true))
		return append(cs, batchCases("rand", 40, 40)...)
	}
	cs := yearCases("year", allYears())
	return append(cs, batchCases("rand", 400, 200)...)
}

var wxGan = map[string]string{"甲": "木", "乙": "木", "丙": "火", "丁": "火", "戊": "土", "己": "土", "庚": "金", "辛": "金", "壬": "水", "癸": "水"}
var wxZhi = map[string]string{"子": "水", "丑": "土", "寅": "木", "卯": "木", "辰": "土", "巳": "火", "午": "火", "未": "土", "申": "金", "酉": "金", "戌": "土", "亥": "水"}
var lifeStages = []string{"长生", "沐浴", "冠带", "临官", "帝旺", "衰", "病", "死", "墓", "绝", "胎", "养"}

// branch index where each stem is "born" (长生); yang stems run forward, yin stems backward
var bornAt = map[int]int{0: 11, 2: 2, 4: 2, 6: 5, 8: 8, 1: 6, 3: 9, 5: 9, 7: 0, 9: 3}

func lifeStage(dayStem, branch int) string {
	d := branch - bornAt[dayStem]
	if dayStem%2 == 1 {
		d = -d
	}
	return lifeStages[((d%12)+12)%12]
}

func splitPair(p string) (string, string) {
	r := []rune(p)
	if len(r) != 2 {
		return "", ""
	}
	return string(r[0]), string(r[1])
}

func stemIdx(s string) int {
	for i, v := range ref.Stems {
		if v == s {
			return i
		}
	}
	return -1
}
func branchIdx(s string) int {
	for i, v := range ref.Branches {
		if v == s {
			return i
		}
	}
	return -1
}

type routePair struct {
	name string
	a, b interface{}
}

func c11Moment(w *W, st ref.Stamp, class string) {
	key := fmtStamp(st)
	w.Cur("C11 moment " + key)
	l := solarOf(st).GetLunar()
	lt := l.GetTime()
	ls := func(x interface{}) string { return fmt.Sprint(x) }
	var pairs []routePair
	add := func(name string, a, b interface{}) { pairs = append(pairs, routePair{name, a, b}) }
	// hour object vs the lunar date's own hour accessors
	add("Time.GetGanZhi|GetTimeInGanZhi", lt.GetGanZhi(), l.GetTimeInGanZhi())
	add("Time.GetGan|GetTimeGan", lt.GetGan(), l.GetTimeGan())
	add("Time.GetZhi|GetTimeZhi", lt.GetZhi(), l.GetTimeZhi())
	add("Time.GetGanIndex|GetTimeGanIndex", lt.GetGanIndex(), l.GetTimeGanIndex())
	add("Time.GetZhiIndex|GetTimeZhiIndex", lt.GetZhiIndex(), l.GetTimeZhiIndex())
	// the exported slot helpers asked with the clock text of the same moment, with and without seconds
	add("LunarUtil.ConvertTime(HH:MM)|GetTimeZhi", LunarUtil.ConvertTime(fmt.Sprintf("%02d:%02d", st.H, st.Mi)), l.GetTimeZhi())
	add("LunarUtil.ConvertTime(HH:MM:SS)|GetTimeZhi", LunarUtil.ConvertTime(l.GetSolar().ToYmdHms()[11:]), l.GetTimeZhi())
	add("LunarUtil.GetTimeZhiIndex(HH:MM:SS)|GetTimeZhiIndex", LunarUtil.GetTimeZhiIndex(l.GetSolar().ToYmdHms()[11:]), l.GetTimeZhiIndex())
	add("Time.GetShengXiao|GetTimeShengXiao", lt.GetShengXiao(), l.GetTimeShengXiao())
	add("Time.GetNineStar|GetTimeNineStar", lt.GetNineStar().GetIndex(), l.GetTimeNineStar().GetIndex())
	add("Time.GetTianShen|GetTimeTianShen", lt.GetTianShen(), l.GetTimeTianShen())
	add("Time.GetTianShenType|GetTimeTianShenType", lt.GetTianShenType(), l.GetTimeTianShenType())
	add("Time.GetTianShenLuck|GetTimeTianShenLuck", lt.GetTianShenLuck(), l.GetTimeTianShenLuck())
	add("Time.GetPositionXi|GetTimePositionXi", lt.GetPositionXi(), l.GetTimePositionXi())
	add("Time.GetPositionXiDesc|GetTimePositionXiDesc", lt.GetPositionXiDesc(), l.GetTimePositionXiDesc())
	add("Time.GetPositionYangGui|GetTimePositionYangGui", lt.GetPositionYangGui(), l.GetTimePositionYangGui())
	add("Time.GetPositionYangGuiDesc|GetTimePositionYangGuiDesc", lt.GetPositionYangGuiDesc(), l.GetTimePositionYangGuiDesc())
	add("Time.GetPositionYinGui|GetTimePositionYinGui", lt.GetPositionYinGui(), l.GetTimePositionYinGui())
	add("Time.GetPositionYinGuiDesc|GetTimePositionYinGuiDesc", lt.GetPositionYinGuiDesc(), l.GetTimePositionYinGuiDesc())
	add("Time.GetPositionFu|GetTimePositionFu", lt.GetPositionFu(), l.GetTimePositionFu())
	add("Time.GetPositionFuDesc|GetTimePositionFuDesc", lt.GetPositionFuDesc(), l.GetTimePositionFuDesc())
	add("Time.GetPositionFuBySect(1)|GetTimePositionFuBySect(1)", lt.GetPositionFuBySect(1), l.GetTimePositionFuBySect(1))
	add("Time.GetPositionCai|GetTimePositionCai", lt.GetPositionCai(), l.GetTimePositionCai())
	add("Time.GetPositionCaiDesc|GetTimePositionCaiDesc", lt.GetPositionCaiDesc(), l.GetTimePositionCaiDesc())
	add("Time.GetChong|GetTimeChong", lt.GetChong(), l.GetTimeChong())
	add("Time.GetChongGan|GetTimeChongGan", lt.GetChongGan(), l.GetTimeChongGan())
	add("Time.GetChongGanTie|GetTimeChongGanTie", lt.GetChongGanTie(), l.GetTimeChongGanTie())
	add("Time.GetChongShengXiao|GetTimeChongShengXiao", lt.GetChongShengXiao(), l.GetTimeChongShengXiao())
	add("Time.GetChongDesc|GetTimeChongDesc", lt.GetChongDesc(), l.GetTimeChongDesc())
	add("Time.GetSha|GetTimeSha", lt.GetSha(), l.GetTimeSha())
	add("Time.GetYi|GetTimeYi", ls(listStrings(lt.GetYi())), ls(listStrings(l.GetTimeYi())))
	add("Time.GetJi|GetTimeJi", ls(listStrings(lt.GetJi())), ls(listStrings(l.GetTimeJi())))
	add("Time.GetNaYin|GetTimeNaYin", lt.GetNaYin(), l.GetTimeNaYin())
	add("Time.GetXun|GetTimeXun", lt.GetXun(), l.GetTimeXun())
	add("Time.GetXunKong|GetTimeXunKong", lt.GetXunKong(), l.GetTimeXunKong())
	add("Time.String|GetTimeInGanZhi", lt.String(), l.GetTimeInGanZhi())
	// the hour list of the day: entry for this moment's slot, and each entry vs per-hour construction
	times := l.GetTimes()
	slot := (st.H + 1) / 2
	if st.H == 23 {
		slot = 12
	}
	if len(times) == 13 {
		add("GetTimes()[slot]|GetTime", digest1(times[slot]), digest1(calendar.NewLunarTime(l.GetYear(), l.GetMonth(), l.GetDay(), map[bool]int{true: 0, false: 2*slot - 1}[slot == 0], 0, 0)))
		add("GetTimes()[slot].GanZhi|GetTimeInGanZhi", times[slot].GetGanZhi(), l.GetTimeInGanZhi())
		k := int(st.Secs()/60) % 13
		hk := 2*k - 1
		if k == 0 {
			hk = 0
		}
		lk := calendar.NewLunar(l.GetYear(), l.GetMonth(), l.GetDay(), hk, 0, 0)
		add(fmt.Sprintf("GetTimes()[%d]|NewLunar(..%d:00).GetTime()", k, hk), digest1(times[k]), digest1(lk.GetTime()))
		add(fmt.Sprintf("GetTimes()[%d].NineStar|Lunar(..%d:00).GetTimeNineStar", k, hk), times[k].GetNineStar().GetIndex(), lk.GetTimeNineStar().GetIndex())
	} else {
		add("len(GetTimes())", len(times), 13)
	}
	// lunar-year object vs New-Year-based year accessors
	ly := calendar.NewLunarYear(l.GetYear())
	add("LunarYear.GetGanZhi|GetYearInGanZhi", ly.GetGanZhi(), l.GetYearInGanZhi())
	add("LunarYear.GetGan|GetYearGan", ly.GetGan(), l.GetYearGan())
	add("LunarYear.GetZhi|GetYearZhi", ly.GetZhi(), l.GetYearZhi())
	add("LunarYear.GetGanIndex|GetYearGanIndex", ly.GetGanIndex(), l.GetYearGanIndex())
	add("LunarYear.GetZhiIndex|GetYearZhiIndex", ly.GetZhiIndex(), l.GetYearZhiIndex())
	add("LunarYear.GetNineStar|GetYearNineStarBySect(1)", ly.GetNineStar().GetIndex(), l.GetYearNineStarBySect(1).GetIndex())
	add("LunarYear.GetPositionTaiSui|GetYearPositionTaiSuiBySect(1)", ly.GetPositionTaiSui(), l.GetYearPositionTaiSuiBySect(1))
	add("LunarYear.GetPositionTaiSuiDesc|GetYearPositionTaiSuiDescBySect(1)", ly.GetPositionTaiSuiDesc(), l.GetYearPositionTaiSuiDescBySect(1))
	add("LunarYear.GetPositionFu|BySect(2)", ly.GetPositionFu(), ly.GetPositionFuBySect(2))
	add("LunarYear.GetPositionFuDesc|BySect(2)", ly.GetPositionFuDesc(), ly.GetPositionFuDescBySect(2))
	if lm := calendar.NewLunarMonthFromYm(l.GetYear(), l.GetMonth()); lm != nil {
		add("LunarMonth.GetPositionFu|BySect(2)", lm.GetPositionFu(), lm.GetPositionFuBySect(2))
		add("LunarMonth.GetPositionFuDesc|BySect(2)", lm.GetPositionFuDesc(), lm.GetPositionFuDescBySect(2))
	}
	// deprecated aliases
	add("GetGan|GetYearGan", l.GetGan(), l.GetYearGan())
	add("GetZhi|GetYearZhi", l.GetZhi(), l.GetYearZhi())
	add("GetShengxiao|GetYearShengXiao", l.GetShengxiao(), l.GetYearShengXiao())
	add("GetPositionXi|GetDayPositionXi", l.GetPositionXi(), l.GetDayPositionXi())
	add("GetPositionXiDesc|GetDayPositionXiDesc", l.GetPositionXiDesc(), l.GetDayPositionXiDesc())
	add("GetPositionYangGui|GetDayPositionYangGui", l.GetPositionYangGui(), l.GetDayPositionYangGui())
	add("GetPositionYangGuiDesc|GetDayPositionYangGuiDesc", l.GetPositionYangGuiDesc(), l.GetDayPositionYangGuiDesc())
	add("GetPositionYinGui|GetDayPositionYinGui", l.GetPositionYinGui(), l.GetDayPositionYinGui())
	add("GetPositionYinGuiDesc|GetDayPositionYinGuiDesc", l.GetPositionYinGuiDesc(), l.GetDayPositionYinGuiDesc())
	add("GetPositionFu|GetDayPositionFu", l.GetPositionFu(), l.GetDayPositionFu())
	add("GetPositionFuDesc|GetDayPositionFuDesc", l.GetPositionFuDesc(), l.GetDayPositionFuDesc())
	add("GetPositionCai|GetDayPositionCai", l.GetPositionCai(), l.GetDayPositionCai())
	add("GetPositionCaiDesc|GetDayPositionCaiDesc", l.GetPositionCaiDesc(), l.GetDayPositionCaiDesc())
	add("GetChong|GetDayChong", l.GetChong(), l.GetDayChong())
	add("GetChongGan|GetDayChongGan", l.GetChongGan(), l.GetDayChongGan())
	add("GetChongGanTie|GetDayChongGanTie", l.GetChongGanTie(), l.GetDayChongGanTie())
	add("GetChongShengXiao|GetDayChongShengXiao", l.GetChongShengXiao(), l.GetDayChongShengXiao())
	add("GetChongDesc|GetDayChongDesc", l.GetChongDesc(), l.GetDayChongDesc())
	add("GetSha|GetDaySha", l.GetSha(), l.GetDaySha())
	add("Solar.GetXingzuo|GetXingZuo", l.GetSolar().GetXingzuo(), l.GetSolar().GetXingZuo())
	ec := l.GetEightChar()
	add("NewEightChar|GetEightChar", digest1(calendar.NewEightChar(l)), digest1(ec))
	add("GetBaZi|EightChar", ls(l.GetBaZi()), ls([4]string{ec.GetYear(), ec.GetMonth(), ec.GetDay(), ec.GetTime()}))
	add("GetBaZiWuXing|EightChar", ls(l.GetBaZiWuXing()), ls([4]string{ec.GetYearWuXing(), ec.GetMonthWuXing(), ec.GetDayWuXing(), ec.GetTimeWuXing()}))
	add("GetBaZiNaYin|EightChar", ls(l.GetBaZiNaYin()), ls([4]string{ec.GetYearNaYin(), ec.GetMonthNaYin(), ec.GetDayNaYin(), ec.GetTimeNaYin()}))
	add("GetBaZiShiShenGan|EightChar", ls(l.GetBaZiShiShenGan()), ls([4]string{ec.GetYearShiShenGan(), ec.GetMonthShiShenGan(), ec.GetDayShiShenGan(), ec.GetTimeShiShenGan()}))
	add("GetBaZiShiShenYearZhi|EightChar", ls(listStrings(l.GetBaZiShiShenYearZhi())), ls(listStrings(ec.GetYearShiShenZhi())))
	add("GetBaZiShiShenMonthZhi|EightChar", ls(listStrings(l.GetBaZiShiShenMonthZhi())), ls(listStrings(ec.GetMonthShiShenZhi())))
	add("GetBaZiShiShenDayZhi|EightChar", ls(listStrings(l.GetBaZiShiShenDayZhi())), ls(listStrings(ec.GetDayShiShenZhi())))
	add("GetBaZiShiShenTimeZhi|EightChar", ls(listStrings(l.GetBaZiShiShenTimeZhi())), ls(listStrings(ec.GetTimeShiShenZhi())))
	add("GetBaZiShiShenZhi[0]|EightChar", l.GetBaZiShiShenZhi()[0], listStrings(ec.GetYearShiShenZhi())[0])
	// default school vs the explicit school it documents
	add("GetDayPositionFu|BySect(2)", l.GetDayPositionFu(), l.GetDayPositionFuBySect(2))
	add("GetDayPositionFuDesc|BySect(2)", l.GetDayPositionFuDesc(), l.GetDayPositionFuDescBySect(2))
	add("GetTimePositionFu|BySect(2)", l.GetTimePositionFu(), l.GetTimePositionFuBySect(2))
	add("GetTimePositionFuDesc|BySect(2)", l.GetTimePositionFuDesc(), l.GetTimePositionFuDescBySect(2))
	add("Time.GetPositionFu|BySect(2)", lt.GetPositionFu(), lt.GetPositionFuBySect(2))
	add("Time.GetPositionFuDesc|BySect(2)", lt.GetPositionFuDesc(), lt.GetPositionFuDescBySect(2))
	add("GetYearPositionTaiSui|BySect(2)", l.GetYearPositionTaiSui(), l.GetYearPositionTaiSuiBySect(2))
	add("GetYearPositionTaiSuiDesc|BySect(2)", l.GetYearPositionTaiSuiDesc(), l.GetYearPositionTaiSuiDescBySect(2))
	add("GetMonthPositionTaiSui|BySect(2)", l.GetMonthPositionTaiSui(), l.GetMonthPositionTaiSuiBySect(2))
	add("GetMonthPositionTaiSuiDesc|BySect(2)", l.GetMonthPositionTaiSuiDesc(), l.GetMonthPositionTaiSuiDescBySect(2))
	add("GetDayPositionTaiSui|BySect(2)", l.GetDayPositionTaiSui(), l.GetDayPositionTaiSuiBySect(2))
	add("GetDayPositionTaiSuiDesc|BySect(2)", l.GetDayPositionTaiSuiDesc(), l.GetDayPositionTaiSuiDescBySect(2))
	add("GetYearNineStar|BySect(2)", l.GetYearNineStar().GetIndex(), l.GetYearNineStarBySect(2).GetIndex())
	add("GetMonthNineStar|BySect(2)", l.GetMonthNineStar().GetIndex(), l.GetMonthNineStarBySect(2).GetIndex())
	add("GetDayYi|BySect(1)", ls(listStrings(l.GetDayYi())), ls(listStrings(l.GetDayYiBySect(1))))
	add("GetDayJi|BySect(1)", ls(listStrings(l.GetDayJi())), ls(listStrings(l.GetDayJiBySect(1))))
	add("GetNextJie|ByWholeDay(false)", ls(l.GetNextJie())+l.GetNextJie().GetSolar().ToYmdHms(), ls(l.GetNextJieByWholeDay(false))+l.GetNextJieByWholeDay(false).GetSolar().ToYmdHms())
	add("GetPrevJieQi|ByWholeDay(false)", ls(l.GetPrevJieQi())+l.GetPrevJieQi().GetSolar().ToYmdHms(), ls(l.GetPrevJieQiByWholeDay(false))+l.GetPrevJieQiByWholeDay(false).GetSolar().ToYmdHms())
	for g := 0; g <= 1; g++ {
		a, b := ec.GetYun(g), ec.GetYunBySect(g, 1)
		add(fmt.Sprintf("GetYun(%d)|GetYunBySect(%d,1)", g, g), yunStr(a), yunStr(b))
	}
	// school parameter outside {1, 2}: every Fu-position accessor documents "1 = first verse, anything else = second";
	// the hour object and the lunar date must agree for every value, and all of them are one function of (stem, school)
	lmo := calendar.NewLunarMonthFromYm(l.GetYear(), l.GetMonth())
	for _, sect := range []int{-1, 0, 1, 2, 3, 99} {
		add(fmt.Sprintf("Time.GetPositionFuBySect(%d)|GetTimePositionFuBySect", sect), lt.GetPositionFuBySect(sect), l.GetTimePositionFuBySect(sect))
		add(fmt.Sprintf("Time.GetPositionFuDescBySect(%d)|GetTimePositionFuDescBySect", sect), lt.GetPositionFuDescBySect(sect), l.GetTimePositionFuDescBySect(sect))
		school := "second"
		if sect == 1 {
			school = "first"
		}
		w.FD("fu-by-stem-school", l.GetDayGan()+"/"+school, l.GetDayPositionFuBySect(sect), key)
		w.FD("fu-by-stem-school", l.GetTimeGan()+"/"+school, l.GetTimePositionFuBySect(sect), key)
		w.FD("fu-by-stem-school", lt.GetGan()+"/"+school, lt.GetPositionFuBySect(sect), key)
		w.FD("fu-by-stem-school", ly.GetGan()+"/"+school, ly.GetPositionFuBySect(sect), key)
		if lmo != nil {
			w.FD("fu-by-stem-school", lmo.GetGan()+"/"+school, lmo.GetPositionFuBySect(sect), key)
		}
		w.Eval(5)
	}
	for _, sect := range []int{-1, 0, 4, 99} {
		// conventions outside {1, 2, 3} fall back to the default (2) for year/month/day accessors that take one
		add(fmt.Sprintf("GetYearNineStarBySect(%d)|default", sect), l.GetYearNineStarBySect(sect).GetIndex(), l.GetYearNineStar().GetIndex())
		add(fmt.Sprintf("GetMonthNineStarBySect(%d)|default", sect), l.GetMonthNineStarBySect(sect).GetIndex(), l.GetMonthNineStar().GetIndex())
		add(fmt.Sprintf("GetYearPositionTaiSuiBySect(%d)|default", sect), l.GetYearPositionTaiSuiBySect(sect), l.GetYearPositionTaiSui())
		add(fmt.Sprintf("GetMonthPositionTaiSuiBySect(%d)|default", sect), l.GetMonthPositionTaiSuiBySect(sect), l.GetMonthPositionTaiSui())
		add(fmt.Sprintf("GetDayPositionTaiSuiBySect(%d)|default", sect), l.GetDayPositionTaiSuiBySect(sect), l.GetDayPositionTaiSui())
	}
	// Desc accessors vs the description table
	for _, d := range [][2]string{{l.GetDayPositionXi(), l.GetDayPositionXiDesc()}, {l.GetDayPositionCai(), l.GetDayPositionCaiDesc()}, {l.GetTimePositionYangGui(), l.GetTimePositionYangGuiDesc()},
		{l.GetYearPositionTaiSuiBySect(3), l.GetYearPositionTaiSuiDescBySect(3)}, {l.GetMonthPositionTaiSuiBySect(3), l.GetMonthPositionTaiSuiDescBySect(3)}, {l.GetDayPositionTaiSuiBySect(1), l.GetDayPositionTaiSuiDescBySect(1)},
		{l.GetDayNineStar().GetPosition(), l.GetDayNineStar().GetPositionDesc()}} {
		add("Desc("+d[0]+")", d[1], LunarUtil.POSITION_DESC[d[0]])
	}
	for _, p := range pairs {
		w.Eval(1)
		if fmt.Sprint(p.a) != fmt.Sprint(p.b) {
			a, b := fmt.Sprint(p.a), fmt.Sprint(p.b)
			if len(a) > 160 {
				a, b = diffDigests(a, b), ""
			}
			w.Violatef("route", p.name+"@"+key, "routes %s disagree at %s: %s vs %s", p.name, key, a, b)
		}
	}
	// chart monitor under both sects
	for sect := 1; sect <= 2; sect++ {
		c11Chart(w, st, sect)
	}
	// switching the convention on ONE chart object: after SetSect(x) every accessor must equal a fresh chart with sect x
	if st.H == 23 || (st.D+st.Mi)%5 == 0 {
		fresh := func(sect int) string {
			e := solarOf(st).GetLunar().GetEightChar()
			e.SetSect(sect)
			return strings.Join(filterParts(digest1(e), []string{"GetLunar="}), ";")
		}
		f1, f2 := fresh(1), fresh(2)
		sone := solarOf(st)
		lone := sone.GetLunar()
		one := lone.GetEightChar()
		seq := []int{2, 1, 2, 1}
		if st.S%2 == 0 {
			seq = []int{1, 2, 1, 2}
		}
		for i, sect := range seq {
			one.SetSect(sect)
			got := strings.Join(filterParts(digest1(one), []string{"GetLunar="}), ";")
			want := f1
			if sect == 2 {
				want = f2
			}
			if got != want {
				w.Violatef("chart-sect-switch", fmt.Sprintf("%s/step%d", key, i), "one EightChar at %s after the SetSect sequence %v: accessors differ from a fresh chart with sect %d: %s", key, seq[:i+1], sect, diffDigests(got, want))
			}
			// the Lunar's deprecated GetBaZi* aliases are documented as the chart's values: they follow the chart's convention
			a := fmt.Sprint(lone.GetBaZi(), lone.GetBaZiWuXing(), lone.GetBaZiNaYin(), lone.GetBaZiShiShenGan(), listStrings(lone.GetBaZiShiShenDayZhi()), listStrings(lone.GetBaZiShiShenTimeZhi()))
			b := fmt.Sprint([4]string{one.GetYear(), one.GetMonth(), one.GetDay(), one.GetTime()}, [4]string{one.GetYearWuXing(), one.GetMonthWuXing(), one.GetDayWuXing(), one.GetTimeWuXing()},
				[4]string{one.GetYearNaYin(), one.GetMonthNaYin(), one.GetDayNaYin(), one.GetTimeNaYin()}, [4]string{one.GetYearShiShenGan(), one.GetMonthShiShenGan(), one.GetDayShiShenGan(), one.GetTimeShiShenGan()},
				listStrings(one.GetDayShiShenZhi()), listStrings(one.GetTimeShiShenZhi()))
			// converting the same Solar again gives a new Lunar with its own chart in the default convention (sect 2),
			// whatever was done to the chart of the first
			if again := strings.Join(filterParts(digest1(sone.GetLunar().GetEightChar()), []string{"GetLunar="}), ";"); again != f2 {
				w.Violatef("route", fmt.Sprintf("Solar.GetLunar() again after SetSect(%d)@%s", sect, key), "after SetSect(%d) on the chart of solar.GetLunar() at %s, converting the same Solar again hands out a chart that differs from a fresh default one: %s", sect, key, diffDigests(f2, again))
			}
			// ... and asking the Lunar anything (every zero-argument accessor, the deprecated aliases included) leaves the chart
			// in the convention the caller chose
			digest1(lone)
			if one.GetSect() != sect {
				w.Violatef("chart-sect-switch", fmt.Sprintf("%s/step%d/sect-kept", key, i), "after SetSect(%d) on the chart of the Lunar at %s and a round of read-only accessors on the Lunar, the chart reports sect %d", sect, key, one.GetSect())
				one.SetSect(sect)
			}
			if a != b {
				w.Violatef("route", fmt.Sprintf("GetBaZi*|EightChar after SetSect(%d)@%s", sect, key), "after SetSect(%d) on the chart of the Lunar at %s its GetBaZi* aliases give %s, the chart %s", sect, key, a, b)
			}
			w.Eval(2)
		}
		w.Count("sect-switch-sequences", 1)
	}
	w.Distinct(1)
	w.Count(class, 1)
}

func c11Chart(w *W, st ref.Stamp, sect int) {
	key := fmt.Sprintf("%s/sect%d", fmtStamp(st), sect)
	l := solarOf(st).GetLunar()
	ec := l.GetEightChar()
	ec.SetSect(sect)
	P := [4]string{ec.GetYear(), ec.GetMonth(), ec.GetDay(), ec.GetTime()}
	dayGan, dayZhi := splitPair(P[2])
	dg := stemIdx(dayGan)
	if dg < 0 || branchIdx(dayZhi) < 0 {
		w.Violatef("chart", key+"/day", "day pillar %q at %s is not a stem-branch pair", P[2], key)
		return
	}
	names := []string{"Year", "Month", "Day", "Time"}
	gans := []string{ec.GetYearGan(), ec.GetMonthGan(), ec.GetDayGan(), ec.GetTimeGan()}
	zhis := []string{ec.GetYearZhi(), ec.GetMonthZhi(), ec.GetDayZhi(), ec.GetTimeZhi()}
	wuxing := []string{ec.GetYearWuXing(), ec.GetMonthWuXing(), ec.GetDayWuXing(), ec.GetTimeWuXing()}
	nayin := []string{ec.GetYearNaYin(), ec.GetMonthNaYin(), ec.GetDayNaYin(), ec.GetTimeNaYin()}
	ssg := []string{ec.GetYearShiShenGan(), ec.GetMonthShiShenGan(), ec.GetDayShiShenGan(), ec.GetTimeShiShenGan()}
	ssz := [][]string{listStrings(ec.GetYearShiShenZhi()), listStrings(ec.GetMonthShiShenZhi()), listStrings(ec.GetDayShiShenZhi()), listStrings(ec.GetTimeShiShenZhi())}
	hide := [][]string{ec.GetYearHideGan(), ec.GetMonthHideGan(), ec.GetDayHideGan(), ec.GetTimeHideGan()}
	dishi := []string{ec.GetYearDiShi(), ec.GetMonthDiShi(), ec.GetDayDiShi(), ec.GetTimeDiShi()}
	xun := []string{ec.GetYearXun(), ec.GetMonthXun(), ec.GetDayXun(), ec.GetTimeXun()}
	kong := []string{ec.GetYearXunKong(), ec.GetMonthXunKong(), ec.GetDayXunKong(), ec.GetTimeXunKong()}
	bad := func(what string, got, want interface{}) {
		w.Violatef("chart", what+"@"+key, "EightChar(sect %d) at %s with pillars %v: %s = %v, recomputed from the reported pillar: %v", sect, fmtStamp(st), P, what, got, want)
	}
	for i := 0; i < 4; i++ {
		g, z := splitPair(P[i])
		gi, zi := stemIdx(g), branchIdx(z)
		if gi < 0 || zi < 0 {
			bad(names[i]+" pillar", P[i], "a stem-branch pair")
			continue
		}
		if gans[i] != g || zhis[i] != z {
			bad("Get"+names[i]+"Gan/Zhi", gans[i]+zhis[i], P[i])
		}
		if wuxing[i] != wxGan[g]+wxZhi[z] {
			bad("Get"+names[i]+"WuXing", wuxing[i], wxGan[g]+wxZhi[z])
		}
		if nayin[i] != LunarUtil.NAYIN[P[i]] {
			bad("Get"+names[i]+"NaYin", nayin[i], LunarUtil.NAYIN[P[i]])
		}
		wantSS := LunarUtil.SHI_SHEN[dayGan+g]
		if i == 2 {
			wantSS = "日主"
		}
		if ssg[i] != wantSS {
			bad("Get"+names[i]+"ShiShenGan", ssg[i], wantSS)
		}
		wantHide := LunarUtil.ZHI_HIDE_GAN[z]
		if fmt.Sprint(hide[i]) != fmt.Sprint(wantHide) {
			bad("Get"+names[i]+"HideGan", hide[i], wantHide)
		}
		var wantSSZ []string
		for _, h := range wantHide {
			wantSSZ = append(wantSSZ, LunarUtil.SHI_SHEN[dayGan+h])
		}
		if fmt.Sprint(ssz[i]) != fmt.Sprint(wantSSZ) {
			bad("Get"+names[i]+"ShiShenZhi", ssz[i], wantSSZ)
		}
		if want := lifeStage(dg, zi); dishi[i] != want {
			bad("Get"+names[i]+"DiShi", dishi[i], want)
		}
		pi := ref.PairIndex(P[i])
		if xun[i] != ref.XunNames[ref.XunIndex(pi)] || kong[i] != ref.XunKongNames[ref.XunIndex(pi)] {
			bad("Get"+names[i]+"Xun/XunKong", xun[i]+"/"+kong[i], ref.XunNames[ref.XunIndex(pi)]+"/"+ref.XunKongNames[ref.XunIndex(pi)])
		}
		w.Eval(9)
	}
	// tai-yuan from the month pillar, tai-xi from the day pillar
	mg, mz := splitPair(P[1])
	wantTY := ref.Stems[(stemIdx(mg)+1)%10] + ref.Branches[(branchIdx(mz)+3)%12]
	if ec.GetTaiYuan() != wantTY || ec.GetTaiYuanNaYin() != LunarUtil.NAYIN[wantTY] {
		bad("GetTaiYuan(+NaYin)", ec.GetTaiYuan()+"/"+ec.GetTaiYuanNaYin(), wantTY+"/"+LunarUtil.NAYIN[wantTY])
	}
	wantTX := ref.Stems[(dg+5)%10] + ref.Branches[(13-branchIdx(dayZhi))%12]
	if ec.GetTaiXi() != wantTX || ec.GetTaiXiNaYin() != LunarUtil.NAYIN[wantTX] {
		bad("GetTaiXi(+NaYin)", ec.GetTaiXi()+"/"+ec.GetTaiXiNaYin(), wantTX+"/"+LunarUtil.NAYIN[wantTX])
	}
	if ec.GetMingGongNaYin() != LunarUtil.NAYIN[ec.GetMingGong()] || ec.GetShenGongNaYin() != LunarUtil.NAYIN[ec.GetShenGong()] {
		bad("GetMingGongNaYin/GetShenGongNaYin", ec.GetMingGongNaYin()+"/"+ec.GetShenGongNaYin(), LunarUtil.NAYIN[ec.GetMingGong()]+"/"+LunarUtil.NAYIN[ec.GetShenGong()])
	}
	if ec.String() != strings.Join(P[:], " ") || ec.GetDayGanIndex() != dg || ec.GetDayZhiIndex() != branchIdx(dayZhi) {
		bad("String/GetDayGanIndex/GetDayZhiIndex", fmt.Sprint(ec.String(), ec.GetDayGanIndex(), ec.GetDayZhiIndex()), fmt.Sprint(strings.Join(P[:], " "), dg, branchIdx(dayZhi)))
	}
	w.Eval(4)
	// same pillars => same attributes (the sect must not leak into anything but the pillars)
	attrs := digest1(ec)
	// GetSect/GetLunar differ by construction
	attrs = strings.Join(filterParts(attrs, []string{"GetSect=", "GetLunar="}), ";")
	w.FD("chart-fd", strings.Join(P[:], " "), sha(attrs), key)
	yg := l.GetYearGanExact()
	w.FD("minggong-fd", yg+mz+zhis[3], ec.GetMingGong()+"/"+ec.GetShenGong(), key)
	w.Distinct(1)
	if sect == 1 && st.H == 23 {
		w.Count("charts-at-late-rat-hour-sect1", 1)
	}
}

func filterParts(s string, drop []string) []string {
	var out []string
	for _, p := range strings.Split(s, ";") {
		skip := false
		for _, d := range drop {
			if strings.HasPrefix(p, d) {
				skip = true
			}
		}
		if !skip {
			out = append(out, p)
		}
	}
	return out
}

func c11Run(w *W, c Case) {
	if c.K == "rand" {
		w.Class("seeded")
		for i := 0; i < c.A[1]; i++ {
			st := randStamp(w.Rng)
			if i%3 == 0 {
				t := T0[w.Rng.Intn(len(T0))]
				st.H, st.Mi, st.S = t[0], t[1], t[2]
			}
			c11Moment(w, st, "seeded-moments")
		}
		return
	}
	y := c.A[0]
	w.Class(fmt.Sprintf("century%02d", y/100))
	tbl := calendar.NewSolarFromYmd(y, 6, 15).GetLunar().GetJieQiTable()
	lo := ref.Stamp{Y: y, M: 1, D: 1}.Secs()
	hi := ref.Stamp{Y: y, M: 12, D: 31, H: 23, Mi: 59, S: 59}.Secs()
	add := func(t int64, class string) {
		if t >= lo && t <= hi {
			c11Moment(w, ref.FromSecs(t), class)
		}
	}
	// Jie days (a seeded third of them in the quick tier): before and after the instant, 23:30
	for p := 2; p <= 24; p += 2 {
		if w.Quick && w.Rng.Intn(3) != 0 {
			continue
		}
		if e := tbl[termKeys31[p]]; e != nil {
			j := stampOf(e).Secs()
			d0 := j / 86400 * 86400
			for _, t := range []int64{j - 1, j, d0, d0 + 23*3600 + 1800} {
				add(t, "jie-day-moments")
			}
		}
	}
	// December solstice day .. 31 December
	if e := tbl["DONG_ZHI"]; e != nil {
		d0 := stampOf(e).Secs() / 86400 * 86400
		for t := d0 - 86400; t <= hi; t += 86400 * 2 {
			add(t+int64(w.Rng.Intn(86400)), "after-december-solstice")
		}
	}
	if e := tbl["夏至"]; e != nil {
		d0 := stampOf(e).Secs() / 86400 * 86400
		add(d0+3600, "summer-solstice-day")
		add(stampOf(e).Secs()+1, "summer-solstice-day")
	}
	if m1 := calendar.NewLunarYear(y).GetMonth(1); m1 != nil {
		j := int64(m1.GetFirstJulianDay() + 0.5)
		add((j-1)*86400+23*3600+59*60, "new-year-moments")
		add(j*86400, "new-year-moments")
	}
	for i := 0; i < 3; i++ {
		add(lo+w.Rng.Int63n(hi-lo+1), "seeded-moments")
	}
}

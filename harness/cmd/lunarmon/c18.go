package main

// C18 - almanac attributes are pure functions of the pillars they are defined on.
// Functional-dependency monitors: for each accessor a declared key; the same key must always
// give the same value (violations carry the pair of witnessing moments). Plus the classical laws.

import (
	"fmt"
	"github.com/6tail/lunar-go/LunarUtil"
	"strings"
	"time"

	"github.com/6tail/lunar-go/calendar"
	"lunarmon/ref"
)

func init() {
	register(&Prop{
		ID:   "C18",
		Rule: "cases: one civil year each; moments: every 2nd day (every day of boundary years and in the thorough tier) at a rotating boundary time, 23:30 on every 5th day, every Jie day before and after its instant, the Lichun day, lunar New Year +-1. At each moment every table-driven attribute of Lunar and of its hour object is fed to a functional-dependency monitor keyed by its declared defining inputs (day/hour stem, branch, stem-branch pair, (month branch, day branch), (month pillar, day pillar), (|lunar month|, day pillar), (early-rat day pillar, hour pillar), (lunar month, day), mansion), read from the same object's pillar getters; the laws are asserted directly: mansions advance one per day in the fixed order in step with the weekday, duty god 建 iff day and month branches coincide, clash branch six places away, the two pairs of a nayin share it and its element. distinct_nontrivial counts distinct moments; the number of distinct keys seen per monitor is reported.",
		Assumptions: []string{
			"keys are read from the same object's pillar getters (validated by C05); the data tables themselves are open data",
			"the 28 mansions in their classical order 角..轸",
		},
		Gen: c18Gen, Run: c18Run,
		BlockKind: "year", BlockQuick: [2]int{6, 6}, BlockThorough: [2]int{0, 25},
		Exhaustive: func(tier string) bool { return false },
		MinEvals:   map[string]int64{"quick": 3000000, "thorough": 100000000},
		Chunks:     128,
	})
}

func c18Gen(g *Gen) []Case {
	if g.Quick {
		return yearCases("year", sampleYears(g.Rng, 200, true))
	}
	return yearCases("year", allYears())
}

var xiu28 = []string{"角", "亢", "氐", "房", "心", "尾", "箕", "斗", "牛", "女", "虚", "危", "室", "壁", "奎", "娄", "胃", "昴", "毕", "觜", "参", "井", "鬼", "柳", "星", "张", "翼", "轸"}

func c18Moment(w *W, st ref.Stamp, class string) {
	key := fmtStamp(st)
	w.Cur("C18 moment " + key)
	l := solarOf(st).GetLunar()
	lt := l.GetTime()
	fd := func(mon, k, v string) {
		w.FD(mon, k, v, key)
		w.Eval(1)
	}
	ls := func(x interface{}) string { return fmt.Sprint(x) }
	dg, dz := l.GetDayGan(), l.GetDayZhi()
	tg, tz := l.GetTimeGan(), l.GetTimeZhi()
	dgz := l.GetDayInGanZhi()
	// day stem
	for name, v := range map[string]string{"DayPositionXi": l.GetDayPositionXi(), "DayPositionXiDesc": l.GetDayPositionXiDesc(), "DayPositionYangGui": l.GetDayPositionYangGui(), "DayPositionYangGuiDesc": l.GetDayPositionYangGuiDesc(),
		"DayPositionYinGui": l.GetDayPositionYinGui(), "DayPositionYinGuiDesc": l.GetDayPositionYinGuiDesc(), "DayPositionFu": l.GetDayPositionFu(), "DayPositionFuDesc": l.GetDayPositionFuDesc(), "DayPositionFuBySect1": l.GetDayPositionFuBySect(1),
		"DayPositionCai": l.GetDayPositionCai(), "DayPositionCaiDesc": l.GetDayPositionCaiDesc(), "PengZuGan": l.GetPengZuGan(), "DayChongGan": l.GetDayChongGan(), "DayChongGanTie": l.GetDayChongGanTie()} {
		fd("by-day-stem/"+name, dg, v)
	}
	// hour stem (Lunar and hour object share one table per attribute)
	for name, v := range map[string][2]string{"PositionXi": {l.GetTimePositionXi(), lt.GetPositionXi()}, "PositionXiDesc": {l.GetTimePositionXiDesc(), lt.GetPositionXiDesc()}, "PositionYangGui": {l.GetTimePositionYangGui(), lt.GetPositionYangGui()},
		"PositionYangGuiDesc": {l.GetTimePositionYangGuiDesc(), lt.GetPositionYangGuiDesc()}, "PositionYinGui": {l.GetTimePositionYinGui(), lt.GetPositionYinGui()}, "PositionYinGuiDesc": {l.GetTimePositionYinGuiDesc(), lt.GetPositionYinGuiDesc()},
		"PositionFu": {l.GetTimePositionFu(), lt.GetPositionFu()}, "PositionFuDesc": {l.GetTimePositionFuDesc(), lt.GetPositionFuDesc()}, "PositionFuBySect1": {l.GetTimePositionFuBySect(1), lt.GetPositionFuBySect(1)},
		"PositionCai": {l.GetTimePositionCai(), lt.GetPositionCai()}, "PositionCaiDesc": {l.GetTimePositionCaiDesc(), lt.GetPositionCaiDesc()}, "ChongGan": {l.GetTimeChongGan(), lt.GetChongGan()}, "ChongGanTie": {l.GetTimeChongGanTie(), lt.GetChongGanTie()}} {
		fd("by-hour-stem/"+name, tg, v[0])
		fd("by-hour-stem/"+name, lt.GetGan(), v[1])
	}
	// the day-stem and hour-stem direction tables are the same function of a stem
	fd("by-stem/PositionXi", dg, l.GetDayPositionXi())
	fd("by-stem/PositionXi", tg, l.GetTimePositionXi())
	fd("by-stem/PositionCai", dg, l.GetDayPositionCai())
	fd("by-stem/PositionCai", tg, l.GetTimePositionCai())
	fd("by-stem/PositionFu2", dg, l.GetDayPositionFu())
	fd("by-stem/PositionFu2", tg, l.GetTimePositionFu())
	fd("by-stem/ChongGan", dg, l.GetDayChongGan())
	fd("by-stem/ChongGan", tg, l.GetTimeChongGan())
	// branch
	for name, v := range map[string]string{"PengZuZhi": l.GetPengZuZhi(), "DayChong": l.GetDayChong(), "DayChongShengXiao": l.GetDayChongShengXiao(), "DaySha": l.GetDaySha(), "DayShengXiao": l.GetDayShengXiao()} {
		fd("by-day-branch/"+name, dz, v)
	}
	for name, v := range map[string][2]string{"Chong": {l.GetTimeChong(), lt.GetChong()}, "ChongShengXiao": {l.GetTimeChongShengXiao(), lt.GetChongShengXiao()}, "Sha": {l.GetTimeSha(), lt.GetSha()}, "ShengXiao": {l.GetTimeShengXiao(), lt.GetShengXiao()}} {
		fd("by-hour-branch/"+name, tz, v[0])
		fd("by-hour-branch/"+name, lt.GetZhi(), v[1])
	}
	fd("by-branch/Chong", dz, l.GetDayChong())
	fd("by-branch/Chong", tz, l.GetTimeChong())
	fd("by-branch/Sha", dz, l.GetDaySha())
	fd("by-branch/Sha", tz, l.GetTimeSha())
	fd("by-branch/ShengXiao", dz, l.GetDayShengXiao())
	fd("by-branch/ShengXiao", tz, l.GetTimeShengXiao())
	fd("by-branch/ShengXiao", l.GetYearZhi(), l.GetYearShengXiao())
	fd("by-branch/ShengXiao", l.GetYearZhiByLiChun(), l.GetYearShengXiaoByLiChun())
	fd("by-branch/ShengXiao", l.GetYearZhiExact(), l.GetYearShengXiaoExact())
	fd("by-branch/ShengXiao", l.GetMonthZhi(), l.GetMonthShengXiao())
	// stem-branch pair: nayin, xun, empty branches through every variant
	pairs := [][3]string{
		{l.GetYearInGanZhi(), l.GetYearXun(), l.GetYearXunKong()}, {l.GetYearInGanZhiByLiChun(), l.GetYearXunByLiChun(), l.GetYearXunKongByLiChun()}, {l.GetYearInGanZhiExact(), l.GetYearXunExact(), l.GetYearXunKongExact()},
		{l.GetMonthInGanZhi(), l.GetMonthXun(), l.GetMonthXunKong()}, {l.GetMonthInGanZhiExact(), l.GetMonthXunExact(), l.GetMonthXunKongExact()},
		{dgz, l.GetDayXun(), l.GetDayXunKong()}, {l.GetDayInGanZhiExact(), l.GetDayXunExact(), l.GetDayXunKongExact()}, {l.GetDayInGanZhiExact2(), l.GetDayXunExact2(), l.GetDayXunKongExact2()},
		{l.GetTimeInGanZhi(), l.GetTimeXun(), l.GetTimeXunKong()}, {lt.GetGanZhi(), lt.GetXun(), lt.GetXunKong()},
	}
	for _, p := range pairs {
		fd("by-pair/Xun", p[0], p[1])
		fd("by-pair/XunKong", p[0], p[2])
		pi := ref.PairIndex(p[0])
		if pi < 0 || p[1] != ref.XunNames[ref.XunIndex(pi)] || p[2] != ref.XunKongNames[ref.XunIndex(pi)] {
			w.Violatef("law-xun", p[0]+"@"+key, "pair %s at %s reports xun %s / empty %s", p[0], key, p[1], p[2])
		}
	}
	for _, p := range [][2]string{{l.GetYearInGanZhi(), l.GetYearNaYin()}, {l.GetMonthInGanZhi(), l.GetMonthNaYin()}, {dgz, l.GetDayNaYin()}, {l.GetTimeInGanZhi(), l.GetTimeNaYin()}, {lt.GetGanZhi(), lt.GetNaYin()}} {
		fd("by-pair/NaYin", p[0], p[1])
		// law: the two pairs of a nayin share it (and therefore its element, the last character)
		if pi := ref.PairIndex(p[0]); pi >= 0 {
			fd("law-nayin-couple", fmt.Sprint(pi/2), p[1])
		}
	}
	fd("by-pair/DayPositionTai", dgz, l.GetDayPositionTai())
	fd("by-pair/DayLu", dgz, l.GetDayLu())
	// month branch x day branch
	mz := l.GetMonthZhi()
	fd("by-month-branch-day-branch/ZhiXing", mz+dz, l.GetZhiXing())
	fd("by-month-branch-day-branch/DayTianShen", mz+dz, l.GetDayTianShen())
	fd("by-tianshen/Type", l.GetDayTianShen(), l.GetDayTianShenType())
	fd("by-tianshen/Type", l.GetTimeTianShen(), l.GetTimeTianShenType())
	fd("by-tianshen/Type", lt.GetTianShen(), lt.GetTianShenType())
	fd("by-tianshen-type/Luck", l.GetDayTianShenType(), l.GetDayTianShenLuck())
	fd("by-tianshen-type/Luck", l.GetTimeTianShenType(), l.GetTimeTianShenLuck())
	fd("by-tianshen-type/Luck", lt.GetTianShenType(), lt.GetTianShenLuck())
	dze := l.GetDayZhiExact()
	fd("by-early-rat-day-branch-hour-branch/TimeTianShen", dze+tz, l.GetTimeTianShen())
	fd("by-early-rat-day-branch-hour-branch/TimeTianShen", dze+lt.GetZhi(), lt.GetTianShen())
	if (dz == mz) != (l.GetZhiXing() == "建") {
		w.Violatef("law-jian", key, "at %s month branch %s, day branch %s, duty god %s", key, mz, dz, l.GetZhiXing())
	}
	bi := branchIdx(dz)
	if bi < 0 || l.GetDayChong() != ref.Branches[(bi+6)%12] || l.GetTimeChong() != ref.Branches[(branchIdx(tz)+6)%12] || lt.GetChong() != l.GetTimeChong() {
		w.Violatef("law-chong", key, "at %s day branch %s clashes %s, hour branch %s clashes %s", key, dz, l.GetDayChong(), tz, l.GetTimeChong())
	}
	w.Eval(2)
	// month pillar x day pillar
	fd("by-month-pillar-day-pillar/DayYi", l.GetMonthInGanZhi()+dgz, ls(listStrings(l.GetDayYi())))
	fd("by-month-pillar-day-pillar/DayJi", l.GetMonthInGanZhi()+dgz, ls(listStrings(l.GetDayJi())))
	fd("by-month-pillar-day-pillar/DayYi", l.GetMonthInGanZhiExact()+dgz, ls(listStrings(l.GetDayYiBySect(2))))
	fd("by-month-pillar-day-pillar/DayJi", l.GetMonthInGanZhiExact()+dgz, ls(listStrings(l.GetDayJiBySect(2))))
	// |lunar month| x day pillar
	am := absInt(l.GetMonth())
	fd("by-lunar-month-day-pillar/DayJiShen", fmt.Sprint(am)+dgz, ls(listStrings(l.GetDayJiShen())))
	fd("by-lunar-month-day-pillar/DayXiongSha", fmt.Sprint(am)+dgz, ls(listStrings(l.GetDayXiongSha())))
	// early-rat day pillar x hour pillar
	dge := l.GetDayInGanZhiExact()
	fd("by-early-rat-day-pillar-hour-pillar/TimeYi", dge+l.GetTimeInGanZhi(), ls(listStrings(l.GetTimeYi())))
	fd("by-early-rat-day-pillar-hour-pillar/TimeJi", dge+l.GetTimeInGanZhi(), ls(listStrings(l.GetTimeJi())))
	fd("by-early-rat-day-pillar-hour-pillar/TimeYi", dge+lt.GetGanZhi(), ls(listStrings(lt.GetYi())))
	fd("by-early-rat-day-pillar-hour-pillar/TimeJi", dge+lt.GetGanZhi(), ls(listStrings(lt.GetJi())))
	// the exported table functions are the same tables asked directly: their answers join the same dependency monitors
	// (a different pair of arguments each time, also ones the calendar has not produced yet in this process)
	if st.S%3 == 0 {
		mp, dp := l.GetMonthInGanZhiExact(), dgz
		fd("by-month-pillar-day-pillar/DayYi", mp+dp, ls(listStrings(LunarUtil.GetDayYi(mp, dp))))
		fd("by-month-pillar-day-pillar/DayJi", mp+dp, ls(listStrings(LunarUtil.GetDayJi(mp, dp))))
		fd("by-lunar-month-day-pillar/DayJiShen", fmt.Sprint(am)+dgz, ls(listStrings(LunarUtil.GetDayJiShen(l.GetMonth(), dgz))))
		fd("by-lunar-month-day-pillar/DayXiongSha", fmt.Sprint(am)+dgz, ls(listStrings(LunarUtil.GetDayXiongSha(l.GetMonth(), dgz))))
		fd("by-early-rat-day-pillar-hour-pillar/TimeYi", dge+l.GetTimeInGanZhi(), ls(listStrings(LunarUtil.GetTimeYi(dge, l.GetTimeInGanZhi()))))
		fd("by-early-rat-day-pillar-hour-pillar/TimeJi", dge+l.GetTimeInGanZhi(), ls(listStrings(LunarUtil.GetTimeJi(dge, l.GetTimeInGanZhi()))))
		// a pair of arguments unrelated to this moment (all 60 x 60 combinations come up over a run)
		rp, rq := ref.Pair60(int(st.Secs()/7)%60), ref.Pair60(int(st.Secs()/11)%60)
		fd("by-month-pillar-day-pillar/DayYi", rp+rq, ls(listStrings(LunarUtil.GetDayYi(rp, rq))))
		fd("by-month-pillar-day-pillar/DayJi", rp+rq, ls(listStrings(LunarUtil.GetDayJi(rp, rq))))
		fd("by-early-rat-day-pillar-hour-pillar/TimeYi", rp+rq, ls(listStrings(LunarUtil.GetTimeYi(rp, rq))))
		fd("by-early-rat-day-pillar-hour-pillar/TimeJi", rp+rq, ls(listStrings(LunarUtil.GetTimeJi(rp, rq))))
		rm := 1 + int(st.Secs()/13)%12
		fd("by-lunar-month-day-pillar/DayJiShen", fmt.Sprint(rm)+rq, ls(listStrings(LunarUtil.GetDayJiShen(rm, rq))))
		fd("by-lunar-month-day-pillar/DayXiongSha", fmt.Sprint(rm)+rq, ls(listStrings(LunarUtil.GetDayXiongSha(-rm, rq))))
		fd("by-pair/Xun", rq, LunarUtil.GetXun(rq))
		fd("by-pair/XunKong", rq, LunarUtil.GetXunKong(rq))
		if LunarUtil.GetJiaZiIndex(rq) != ref.PairIndex(rq) || LunarUtil.GetXunIndex(rq) != ref.XunIndex(ref.PairIndex(rq)) {
			w.Violatef("law-xun", rq+"/util", "LunarUtil.GetJiaZiIndex(%s)=%d GetXunIndex=%d", rq, LunarUtil.GetJiaZiIndex(rq), LunarUtil.GetXunIndex(rq))
		}
	}
	// lunar month and day
	fd("by-lunar-day/YueXiang", fmt.Sprint(l.GetDay()), l.GetYueXiang())
	fd("by-lunar-month-day/LiuYao", fmt.Sprintf("%d-%d", am, l.GetDay()), l.GetLiuYao())
	fd("by-lunar-month/Season", fmt.Sprint(am), l.GetSeason())
	fd("by-lunar-month/MonthPositionTai", fmt.Sprint(l.GetMonth()), l.GetMonthPositionTai())
	// tai-sui directions
	fd("by-year-branch/YearPositionTaiSui", l.GetYearZhi(), l.GetYearPositionTaiSuiBySect(1))
	fd("by-year-branch/YearPositionTaiSui", l.GetYearZhiByLiChun(), l.GetYearPositionTaiSuiBySect(2))
	fd("by-year-branch/YearPositionTaiSui", l.GetYearZhiExact(), l.GetYearPositionTaiSuiBySect(3))
	fd("by-month-pillar/MonthPositionTaiSui", l.GetMonthInGanZhi(), l.GetMonthPositionTaiSuiBySect(2))
	fd("by-month-pillar/MonthPositionTaiSui", l.GetMonthInGanZhiExact(), l.GetMonthPositionTaiSuiBySect(3))
	fd("by-day-pillar-year-branch/DayPositionTaiSui", dgz+l.GetYearZhi(), l.GetDayPositionTaiSuiBySect(1))
	fd("by-day-pillar-year-branch/DayPositionTaiSui", l.GetDayInGanZhiExact2()+l.GetYearZhiByLiChun(), l.GetDayPositionTaiSuiBySect(2))
	fd("by-day-pillar-year-branch/DayPositionTaiSui", dgz+l.GetYearZhiExact(), l.GetDayPositionTaiSuiBySect(3))
	// mansion
	xiu := l.GetXiu()
	fd("by-mansion/XiuLuck", xiu, l.GetXiuLuck())
	fd("by-mansion/XiuSong", xiu, l.GetXiuSong())
	fd("by-mansion/Zheng", xiu, l.GetZheng())
	fd("by-mansion/Animal", xiu, l.GetAnimal())
	fd("by-mansion/Gong", xiu, l.GetGong())
	fd("by-gong/Shou", l.GetGong(), l.GetShou())
	fd("by-branch-weekday/Xiu", fmt.Sprintf("%s%d", dz, l.GetWeek()), xiu)
	j := ref.JDN(st.Y, st.M, st.D)
	xi := -1
	for i, v := range xiu28 {
		if v == xiu {
			xi = i
		}
	}
	if xi < 0 {
		w.Violatef("law-mansion", key, "mansion %q at %s is not one of the 28", xiu, key)
	} else {
		// one per day in the fixed order: (index - JDN) mod 28 is a constant; in step with the weekday: index mod 7 fixed by weekday
		fd("law-mansion-order", "offset", fmt.Sprint(modI(xi-j, 28)))
		fd("law-mansion-weekday", fmt.Sprint(ref.Weekday(j)), fmt.Sprint(xi%7))
	}
	// the same moment handed over as a time.Time (fields copied, whatever calendar Go thinks they belong to): same mansion,
	// same weekday, same everything that hangs on them
	if st.D <= 28 && (st.D+st.Mi)%6 == 0 && !(st.Y == 1582 && st.M == 10 && st.D > 4 && st.D < 15) {
		lf := calendar.NewLunarFromDate(time.Date(st.Y, time.Month(st.M), st.D, st.H, st.Mi, st.S, 0, time.UTC))
		if a, b := fmt.Sprint(lf.GetXiu(), lf.GetWeek(), lf.GetWeekInChinese(), lf.GetXiuLuck(), lf.GetXiuSong(), lf.GetZheng(), lf.GetAnimal(), lf.GetGong(), lf.GetShou()), fmt.Sprint(l.GetXiu(), l.GetWeek(), l.GetWeekInChinese(), l.GetXiuLuck(), l.GetXiuSong(), l.GetZheng(), l.GetAnimal(), l.GetGong(), l.GetShou()); a != b {
			w.Violatef("law-mansion", key+"/from-time", "the Lunar built from a time.Time with the fields of %s reports mansion/weekday %s, the one built from the fields %s", key, a, b)
		}
		w.Eval(1)
	}
	if l.GetWeek() != ref.Weekday(j) {
		w.Violatef("law-mansion", key+"/week", "Lunar.GetWeek=%d at %s, reference %d", l.GetWeek(), key, ref.Weekday(j))
	}
	// none of these attributes is a matter of the chart's day-boundary convention: switching the Lunar's own chart to
	// sect 1 (a caller preparing to read the chart the other way) must leave every non-chart accessor where it was
	if st.H == 23 {
		snap := func() string {
			var keep []string
			for _, p := range strings.Split(digest1(l), ";") {
				if !strings.HasPrefix(p, "GetBaZi") && !strings.HasPrefix(p, "GetEightChar") && !strings.HasPrefix(p, "Lunar{GetBaZi") {
					keep = append(keep, p)
				}
			}
			return strings.Join(keep, ";")
		}
		before := snap()
		l.GetEightChar().SetSect(1)
		after := snap()
		l.GetEightChar().SetSect(2)
		if before != after {
			w.Violatef("sect-dependence", key, "accessors of the Lunar at %s change when its chart is switched to sect 1: %s", key, diffDigests(before, after))
		}
		w.Eval(1)
		w.Count("late-rat-hour-sect-switches", 1)
	}
	w.Distinct(1)
	w.Count(class, 1)
}

func c18Run(w *W, c Case) {
	y := c.A[0]
	w.Class(fmt.Sprintf("century%02d", y/100))
	historyTouch(w, y)
	by := isBoundaryYear(y)
	tbl := calendar.NewSolarFromYmd(y, 6, 15).GetLunar().GetJieQiTable()
	lo := ref.Stamp{Y: y, M: 1, D: 1}.Secs()
	hi := ref.Stamp{Y: y, M: 12, D: 31, H: 23, Mi: 59, S: 59}.Secs()
	nAdd := 0
	add := func(t int64, class string) {
		if t >= lo && t <= hi {
			if nAdd++; nAdd%9 == 0 {
				distract(ref.FromSecs(t), nAdd/9)
			}
			c18Moment(w, ref.FromSecs(t), class)
		}
	}
	step := 2
	if by || !w.Quick || w.InBlock {
		step = 1
	}
	for j := ref.JDN(y, 1, 1); j <= ref.JDN(y, 12, 31); j += step {
		t := T0[(j+y)%len(T0)]
		add(int64(j)*86400+int64(t[0]*3600+t[1]*60+t[2]), "walk-moments")
		if j%5 == 0 {
			add(int64(j)*86400+23*3600+1800, "late-rat-moments")
			add(int64(j)*86400+int64(w.Rng.Intn(86400)), "walk-moments")
		}
	}
	for p := 2; p <= 24; p += 2 {
		if e := tbl[termKeys31[p]]; e != nil {
			js := stampOf(e).Secs()
			d0 := js / 86400 * 86400
			for _, t := range []int64{js - 1, js, d0, d0 + 1800, d0 + 23*3600 + 1800} {
				add(t, "jie-day-moments")
			}
		}
	}
	if m1 := calendar.NewLunarYear(y).GetMonth(1); m1 != nil {
		j := int64(m1.GetFirstJulianDay() + 0.5)
		add((j-1)*86400+23*3600+59*60, "new-year-moments")
		add(j*86400+1, "new-year-moments")
	}
	if y == 2024 {
		w.Sample("year", map[string]interface{}{"year": y, "example_key": "by-month-branch-day-branch/ZhiXing keyed by month branch + day branch"})
	}
}

package main

// C20 - zodiac signs and weekday-based civil festivals follow their date rules.

import (
	"fmt"
	"sort"
	"strings"
	"time"

	"github.com/6tail/lunar-go/SolarUtil"
	"github.com/6tail/lunar-go/calendar"
	"lunarmon/ref"
)

func init() {
	register(&Prop{
		ID:   "C20",
		Rule: "cases: one civil year each (every year 1..9998, both tiers); every day: the zodiac sign must be the one whose conventional run contains (month, day) - exactly one of twelve, in order, each run contiguous from its start day - and feeds a functional-dependency monitor keyed by (month, day); the festival list must be exactly {fixed-date festival of the day} + {k-th weekday festival when the day is the k-th occurrence of its weekday in the month} + {last-weekday festival when no later same weekday exists in the month}, with an exactly-once counter per (festival, year); other-festival lists must equal the table entry of the date. distinct_nontrivial counts distinct civil days judged.",
		Assumptions: []string{
			"conventional sign start days: 3/21 4/20 5/21 6/22 7/23 8/23 9/23 10/24 11/23 12/22 1/20 2/19",
			"festival names and their month-day / month-k-weekday keys are read from the library's exported tables (open data); occurrences are counted over existing days with the RefCal weekday",
		},
		First: c20First,
		Gen: func(g *Gen) []Case {
			// the per-year cases are spread over the worker pool in ascending order; two more cases walk ALL years inside
			// one process, in descending and in seeded-shuffled order, so results are also judged under other call histories
			return append(yearCases("year", allYears()), Case{K: "history", A: []int{0}}, Case{K: "history", A: []int{1}})
		}, Run: c20Run,
		Exhaustive: func(tier string) bool { return true },
		MinEvals:   map[string]int64{"quick": 7000000, "thorough": 7000000},
		Chunks:     128,
	})
}

var signNames = []string{"白羊", "金牛", "双子", "巨蟹", "狮子", "处女", "天秤", "天蝎", "射手", "摩羯", "水瓶", "双鱼"}
var signStart = [][2]int{{3, 21}, {4, 20}, {5, 21}, {6, 22}, {7, 23}, {8, 23}, {9, 23}, {10, 24}, {11, 23}, {12, 22}, {1, 20}, {2, 19}}

func signOf(m, d int) int {
	md := m*100 + d
	for i := range signStart {
		a := signStart[i][0]*100 + signStart[i][1]
		b := signStart[(i+1)%12][0]*100 + signStart[(i+1)%12][1]
		if a < b {
			if md >= a && md < b {
				return i
			}
		} else if md >= a || md < b {
			return i
		}
	}
	return -1
}

var c20InHistory bool

// c20First is the very first thing a C20 worker does with the library (before the seam warm-up): it asks for the
// festivals of one weekday-festival day (which one rotates with the chunk number), in a process that has not
// asked for any festival yet, and judges the answer like any other day's.
func c20First(w *W, idx int) {
	days := [][3]int{{2022, 3, 28}, {2024, 5, 12}, {2023, 6, 18}, {2024, 11, 28}, {2022, 5, 8}, {2021, 3, 29}, {1582, 11, 25}, {9998, 5, 10}}
	d := days[((idx%len(days))+len(days))%len(days)]
	key := ymd(d[0], d[1], d[2])
	w.Cur("C20 first call " + key)
	wd := ref.Weekday(ref.JDN(d[0], d[1], d[2]))
	occ, total := 0, 0
	for k := 1; k <= 31; k++ {
		if ref.Exists(d[0], d[1], k) && ref.Weekday(ref.JDN(d[0], d[1], k)) == wd {
			total++
			if k <= d[2] {
				occ++
			}
		}
	}
	var want []string
	if f, ok := SolarUtil.FESTIVAL[fmt.Sprintf("%d-%d", d[1], d[2])]; ok {
		want = append(want, f)
	}
	if f, ok := SolarUtil.WEEK_FESTIVAL[fmt.Sprintf("%d-%d-%d", d[1], occ, wd)]; ok {
		want = append(want, f)
	}
	if occ == total {
		if f, ok := SolarUtil.WEEK_FESTIVAL[fmt.Sprintf("%d-0-%d", d[1], wd)]; ok {
			want = append(want, f)
		}
	}
	got := listStrings(calendar.NewSolarFromYmd(d[0], d[1], d[2]).GetFestivals())
	a, b := append([]string{}, got...), append([]string{}, want...)
	sort.Strings(a)
	sort.Strings(b)
	if strings.Join(a, "|") != strings.Join(b, "|") {
		w.Violatef("festivals", key+"/first-call-of-the-process", "festivals of %s asked as the first library call of a process = %v, rules give %v", key, got, want)
	}
	w.Eval(1)
	w.Count("first-call-festival-queries", 1)
}

func c20Run(w *W, c Case) {
	c20InHistory = c.K == "history"
	if c.K == "history" {
		ys := allYears()
		if c.A[0] == 0 {
			for i, j := 0, len(ys)-1; i < j; i, j = i+1, j-1 {
				ys[i], ys[j] = ys[j], ys[i]
			}
			w.Class("history/descending")
		} else {
			w.Rng.Shuffle(len(ys), func(i, j int) { ys[i], ys[j] = ys[j], ys[i] })
			w.Class("history/shuffled")
		}
		for _, y := range ys {
			if w.Full() {
				return
			}
			c20Year(w, y)
		}
		w.Count("single-process-history-passes", 1)
		return
	}
	c20Year(w, c.A[0])
}

func c20Year(w *W, y int) {
	w.Class(fmt.Sprintf("century%02d", y/100))
	count := map[string]int{}
	prevSign := -1
	changes := 0
	for m := 1; m <= 12; m++ {
		// weekday occurrences over existing days
		occ := map[int]int{}
		total := map[int]int{}
		for d := 1; d <= 31; d++ {
			if ref.Exists(y, m, d) {
				total[ref.Weekday(ref.JDN(y, m, d))]++
			}
		}
		for d := 1; d <= 31; d++ {
			if !ref.Exists(y, m, d) {
				continue
			}
			key := ymd(y, m, d)
			w.Cur("C20 day " + key)
			s := calendar.NewSolarFromYmd(y, m, d)
			// zodiac
			si := signOf(m, d)
			got := s.GetXingZuo()
			if si < 0 || got != signNames[si] || s.GetXingzuo() != got {
				w.Violatef("zodiac", key, "sign of %s is %q, the conventional runs give %q", key, got, signNames[si])
			}
			w.FD("zodiac-by-month-day", fmt.Sprintf("%d-%d", m, d), got, key)
			gi := -1
			for i, n := range signNames {
				if n == got {
					gi = i
				}
			}
			if prevSign >= 0 && gi != prevSign {
				changes++
				if gi != (prevSign+1)%12 || signStart[gi] != [2]int{m, d} {
					w.Violatef("zodiac-order", key, "sign changes from %s to %s on %s; the next sign in order starts on %d/%d", signNames[prevSign], got, key, signStart[(prevSign+1)%12][0], signStart[(prevSign+1)%12][1])
				}
			}
			prevSign = gi
			// festivals
			wd := ref.Weekday(ref.JDN(y, m, d))
			occ[wd]++
			var want []string
			if f, ok := SolarUtil.FESTIVAL[fmt.Sprintf("%d-%d", m, d)]; ok {
				want = append(want, f)
			}
			if f, ok := SolarUtil.WEEK_FESTIVAL[fmt.Sprintf("%d-%d-%d", m, occ[wd], wd)]; ok {
				want = append(want, f)
			}
			if occ[wd] == total[wd] {
				if f, ok := SolarUtil.WEEK_FESTIVAL[fmt.Sprintf("%d-0-%d", m, wd)]; ok {
					want = append(want, f)
				}
			}
			gf := listStrings(s.GetFestivals())
			for _, f := range gf {
				count[f]++
			}
			a, b := append([]string{}, gf...), append([]string{}, want...)
			sort.Strings(a)
			sort.Strings(b)
			if strings.Join(a, "|") != strings.Join(b, "|") {
				w.Violatef("festivals", key, "festivals of %s (weekday %d, occurrence %d of %d) = %v, rules give %v", key, wd, occ[wd], total[wd], gf, want)
			}
			go2l := listStrings(s.GetOtherFestivals())
			if go2, wo := go2l, SolarUtil.OTHER_FESTIVAL[fmt.Sprintf("%d-%d", m, d)]; strings.Join(go2, "|") != strings.Join(wo, "|") {
				w.Violatef("other-festivals", key, "other festivals of %s = %v, table has %v", key, go2, wo)
			}
			if len(want) > 1 {
				w.Count("days-with-two-festivals", 1)
			}
			// the answers are the day's, not the caller's history: rendering the day, or a caller appending to a list it was
			// handed, must not change what the next question gets
			_ = s.ToFullString() + s.String()
			if d%5 == 0 {
				s.GetFestivals().PushBack("(caller's note)")
				s.GetOtherFestivals().PushBack("(caller's note)")
			}
			// a Solar of another day reached from this (by now fully questioned) one, or built through a Julian day that
			// rounds up to a midnight, answers like one constructed from its fields
			if (d+m)%4 == 0 && !c20InHistory {
				rs := []*calendar.Solar{s.NextYear(1), s.NextYear(-3), s.NextMonth(1), s.NextDay(1), s.NextHour(24), s.Next(-1, false), s.GetLunar().GetSolar(),
					calendar.NewSolarFromJulianDay(s.GetJulianDay() - 0.3/86400)}
				if d <= 28 && !(y == 1582 && m == 10 && d > 4 && d < 15) {
					// (route 8) the same fields handed over as a time.Time, whatever calendar Go thinks they belong to
					rs = append(rs, calendar.NewSolarFromDate(time.Date(y, time.Month(m), d, 7, 8, 9, 0, time.UTC)))
				}
				for ri, r := range rs {
					if r.GetYear() < minYear || r.GetYear() > maxYear {
						continue
					}
					f := calendar.NewSolar(r.GetYear(), r.GetMonth(), r.GetDay(), r.GetHour(), r.GetMinute(), r.GetSecond())
					if a, b := fmt.Sprint(listStrings(r.GetFestivals()), listStrings(r.GetOtherFestivals()), r.GetXingZuo(), r.GetWeek()), fmt.Sprint(listStrings(f.GetFestivals()), listStrings(f.GetOtherFestivals()), f.GetXingZuo(), f.GetWeek()); a != b {
						w.Violatef("festivals-route", fmt.Sprintf("%s/route%d", key, ri), "the Solar %s reached from %s (route %d: +1y / -3y / +1 month / +1 day / +24 h / -1 day / via lunar / Julian day 0.3 s before midnight) reports %s, one constructed from the same fields %s", r.ToYmdHms(), key, ri, a, b)
					}
				}
				w.Eval(len(rs))
			}
			s2 := calendar.NewSolarFromYmd(y, m, d)
			if g2, o2 := listStrings(s2.GetFestivals()), listStrings(s2.GetOtherFestivals()); strings.Join(g2, "|") != strings.Join(gf, "|") || strings.Join(o2, "|") != strings.Join(go2l, "|") {
				w.Violatef("festivals-stable", key, "festivals of %s asked again after rendering the day: %v / %v, first answer %v / %v", key, g2, o2, gf, go2l)
			}
			w.Eval(5)
			w.Distinct(1)
		}
	}
	if changes != 12 {
		w.Violatef("zodiac-order", fmt.Sprintf("%d/changes", y), "the sign changes %d times during %d, expected 12", changes, y)
	}
	// exactly once per year
	for _, f := range SolarUtil.WEEK_FESTIVAL {
		if count[f] != 1 {
			w.Violatef("exactly-once", fmt.Sprintf("%d/%s", y, f), "weekday festival %s is reported %d times in %d", f, count[f], y)
		}
	}
	for k, f := range SolarUtil.FESTIVAL {
		var m, d int
		fmt.Sscanf(k, "%d-%d", &m, &d)
		if ref.Exists(y, m, d) && count[f] != 1 {
			w.Violatef("exactly-once", fmt.Sprintf("%d/%s", y, f), "fixed-date festival %s is reported %d times in %d", f, count[f], y)
		}
	}
	w.Eval(len(SolarUtil.WEEK_FESTIVAL) + len(SolarUtil.FESTIVAL))
	if y == 2018 {
		w.Sample("year", map[string]interface{}{"year": y, "2018-10-01": listStrings(calendar.NewSolarFromYmd(2018, 10, 1).GetFestivals())})
	}
}

package main

import (
	"container/list"
	"fmt"
	"math/rand"
	"sort"

	"github.com/6tail/lunar-go/calendar"
	"lunarmon/ref"
)

// Shared workload vocabulary (DESIGN §2).

const minYear, maxYear = 1, 9998

// boundaryYears: the seams of the code and of the calendars.
func boundaryYears() []int {
	var ys []int
	add := func(lo, hi int) {
		for y := lo; y <= hi; y++ {
			ys = append(ys, y)
		}
	}
	add(1, 25)
	add(234, 242)
	add(1570, 1584)
	add(1599, 1601)
	add(1643, 1647)
	add(1899, 1901)
	add(1927, 1930)
	add(1958, 1961)
	add(2017, 2034)
	add(2099, 2101)
	add(2999, 3001)
	add(9990, 9998)
	// century years on both sides of the leap rule, and the first year of a third 400-year cycle
	ys = append(ys, 1600, 1700, 1800, 1900, 2000, 2100, 2200, 2400, 3200)
	// Julian-only leap days (century years that are leap in the Julian calendar but not in the proleptic Gregorian one)
	ys = append(ys, 100, 200, 300, 500, 600, 700, 900, 1000, 1100, 1300, 1400, 1500)
	// the years after those (their first days are counted from the previous, Julian-only leap, year)
	ys = append(ys, 101, 201, 301, 501, 601, 701, 901, 1001, 1101, 1301, 1401, 1501)
	// years with a solar term within two seconds of local midnight (found by scanning all 9 998 tables of the
	// unchanged library; tools/near_midnight_terms.go re-derives the list)
	ys = append(ys, 32, 699, 1951, 3167, 3186, 3255, 3439, 3824, 4886, 5014, 6167, 8502)
	// years with (or right after) a leap 11th / 12th month, on both sides of the 1575..3357 stretch that has no leap 12
	ys = append(ys, 37, 38, 75, 76, 1574, 1575, 1576, 2128, 2129, 3358, 3359)
	return ys
}

// sampleYears returns the boundary years plus n seeded years, sorted and distinct.
func sampleYears(rng *rand.Rand, n int, withBoundary bool) []int {
	set := map[int]bool{}
	if withBoundary {
		for _, y := range boundaryYears() {
			set[y] = true
		}
	}
	for len(set) < n+func() int {
		if withBoundary {
			return len(boundaryYears())
		}
		return 0
	}() {
		set[minYear+rng.Intn(maxYear-minYear+1)] = true
	}
	ys := make([]int, 0, len(set))
	for y := range set {
		ys = append(ys, y)
	}
	sort.Ints(ys)
	return ys
}

func allYears() []int {
	ys := make([]int, 0, maxYear)
	for y := minYear; y <= maxYear; y++ {
		ys = append(ys, y)
	}
	return ys
}

func yearCases(kind string, ys []int) []Case {
	cs := make([]Case, 0, len(ys))
	for _, y := range ys {
		cs = append(cs, Case{K: kind, A: []int{y}})
	}
	return cs
}

// batchCases: n batches of seeded work; the batch index seeds the per-case PRNG.
func batchCases(kind string, n int, size int) []Case {
	cs := make([]Case, 0, n)
	for i := 0; i < n; i++ {
		cs = append(cs, Case{K: kind, A: []int{i, size}})
	}
	return cs
}

// T0: representative and boundary times of day.
var T0 = [][3]int{{0, 0, 0}, {0, 59, 59}, {1, 0, 0}, {12, 0, 0}, {22, 59, 59}, {23, 0, 0}, {23, 59, 59}}

func stampOf(s *calendar.Solar) ref.Stamp {
	return ref.Stamp{Y: s.GetYear(), M: s.GetMonth(), D: s.GetDay(), H: s.GetHour(), Mi: s.GetMinute(), S: s.GetSecond()}
}

func solarOf(t ref.Stamp) *calendar.Solar {
	return calendar.NewSolar(t.Y, t.M, t.D, t.H, t.Mi, t.S)
}

func fmtStamp(t ref.Stamp) string {
	return fmt.Sprintf("%04d-%02d-%02d %02d:%02d:%02d", t.Y, t.M, t.D, t.H, t.Mi, t.S)
}

func ymd(y, m, d int) string { return fmt.Sprintf("%04d-%02d-%02d", y, m, d) }

// randStamp: a uniformly random civil second in [minYear, maxYear].
func randStamp(rng *rand.Rand) ref.Stamp {
	j := ref.MinJDN + rng.Intn(ref.MaxJDN-ref.MinJDN+1)
	y, m, d := ref.FromJDN(j)
	return ref.Stamp{Y: y, M: m, D: d, H: rng.Intn(24), Mi: rng.Intn(60), S: rng.Intn(60)}
}

func randDayIn(rng *rand.Rand, ylo, yhi int) (int, int, int) {
	lo := ref.JDN(ylo, 1, 1)
	hi := ref.JDN(yhi, 12, 31)
	return ref.FromJDN(lo + rng.Intn(hi-lo+1))
}

func listStrings(l *list.List) []string {
	var out []string
	if l == nil {
		return out
	}
	for e := l.Front(); e != nil; e = e.Next() {
		out = append(out, fmt.Sprint(e.Value))
	}
	return out
}

// historyTouch makes "a later year was used first" part of the history of a year-case: before the
// judged (ascending) walk of an odd year y, every zero-argument accessor of Solar and Lunar is called on a few
// dates of the neighbouring years and the results are discarded. Process-wide or first-write-wins memos keyed
// too coarsely then poison the walk that follows.
func historyTouch(w *W, y int) {
	if y%2 == 0 {
		return
	}
	for _, d := range [][3]int{{y + 1, 1, 10}, {y + 1, 2, 20}, {y + 1, 7, 1}, {y - 1, 12, 25}, {y + 2, 3, 3}, {y + 1, 11, 24}} {
		if d[0] < minYear || d[0] > maxYear {
			continue
		}
		w.Curf("history touch %04d-%02d-%02d before year %d", d[0], d[1], d[2], y)
		s := calendar.NewSolar(d[0], d[1], d[2], 23, 30, 0)
		digest1(s)
		digest1(s.GetLunar())
	}
	w.Count("cases-with-later-year-history", 1)
}

// distract: a conversion of some other moment (a year or some weeks away, on either side; which one rotates with n),
// with a few accessors that go through package-level helpers, slipped in between two judged moments. One-slot memos
// keyed too coarsely (by lunar year only, by month and day only, ...) hand the judged moment the distractor's answer.
var distractOffsets = []int64{-365, 365, 40, -40, 300, -300, 1, -1, 59, -59, 20, -20, 330, -330, 90, -90}

func distract(st ref.Stamp, n int) {
	if n < 0 {
		n = -n
	}
	// which offset: a hash of the moment and the counter (a plain rotation would pair each offset with the same few
	// days of every year)
	n = int(((uint64(st.Secs())/86400)*2654435761 + uint64(n)*40503) >> 5 % 1000003)
	t := st.Secs() + distractOffsets[n%len(distractOffsets)]*86400
	// every fourth time, where one exists, the day of the same year whose month and day print the same digits when
	// written without padding or separator (1/11..19 <-> 11/1..9, 1/21..29 <-> 12/1..9): the favourite accident of
	// string keys
	if n%4 == 1 {
		pm, pd := 0, 0
		switch {
		case st.M == 11 && st.D <= 9:
			pm, pd = 1, 10+st.D
		case st.M == 12 && st.D <= 9:
			pm, pd = 1, 20+st.D
		case st.M == 1 && st.D >= 11 && st.D <= 19:
			pm, pd = 11, st.D-10
		case st.M == 1 && st.D >= 21 && st.D <= 29:
			pm, pd = 12, st.D-20
		}
		if pm != 0 {
			t = ref.Stamp{Y: st.Y, M: pm, D: pd, H: st.H, Mi: st.Mi, S: st.S}.Secs()
		}
	}
	lo, hi := ref.Stamp{Y: minYear, M: 1, D: 1}.Secs(), ref.Stamp{Y: maxYear, M: 12, D: 31, H: 23, Mi: 59, S: 59}.Secs()
	if t < lo || t > hi {
		t = st.Secs() - distractOffsets[n%len(distractOffsets)]*86400
	}
	if t < lo || t > hi {
		return
	}
	s := solarOf(ref.FromSecs(t))
	l := s.GetLunar()
	l.GetJieQi()
	l.GetNextQi()
	l.GetPrevJieQiByWholeDay(true)
	l.GetDayNineStar()
	l.GetFestivals()
	l.GetOtherFestivals()
	l.GetDayYi()
	l.GetTime().GetNineStar()
	l.GetFoto().IsDayZhaiSix()
	l.GetTao().IsDaySanHui()
	l.GetHou()
	l.GetShuJiu()
	l.GetFu()
	s.GetFestivals()
	_ = s.ToFullString() + l.ToFullString()
	if n%2 == 0 {
		prodCache(st.Y)
	}
}

// prodCache makes year y the cached year and then asks the cached year object and every month object in its table
// all their zero-argument questions (printing them included), the way a caller inspecting the year would. These are
// the very objects the next conversion of a date in year y is computed from: a "read-only" accessor that edits them
// (filters a list in place, normalises a field while printing, memoises into them) corrupts that conversion.
func prodCache(y int) {
	if y < minYear || y > maxYear {
		return
	}
	digest1(calendar.NewLunarYear(y))
	// the year's own months only, each taken from whatever object is cached for y at that moment (accessors of a month
	// of a neighbouring year would have that year computed and y evicted, and the objects prodded so far with it)
	for idx := 0; idx < 16; idx++ {
		k := 0
		for e := calendar.NewLunarYear(y).GetMonths().Front(); e != nil; e = e.Next() {
			if m, ok := e.Value.(*calendar.LunarMonth); ok && m != nil && k == idx && m.GetYear() == y {
				digest1(m)
			}
			k++
		}
	}
	for e := calendar.NewLunarYear(y).GetMonthsInYear().Front(); e != nil; e = e.Next() {
		_ = fmt.Sprint(e.Value)
	}
	calendar.NewLunarYear(y)
}

func absInt(a int) int {
	if a < 0 {
		return -a
	}
	return a
}

// seamWarmup is the first thing every worker process does with the library: it converts and renders the days of
// October, January and December of ONE seam year (which one rotates with the chunk number), so that whatever the
// library builds lazily on first use is built from the data of a seam (the 21-day October of 1582, year 1, the last
// year, a Julian-only leap year, a reform year) in some processes and from ordinary data in others. State that is
// sized or keyed by its first caller then shows up as a difference in the judged cases that follow.
var seamYears = []int{1582, 2024, 1, 9998, 1500, 23, 1600, 239, 2033, 3439, 1583, 100}

func seamWarmup(idx int) {
	y := seamYears[((idx%len(seamYears))+len(seamYears))%len(seamYears)]
	for _, m := range []int{10, 1, 12, 2} {
		for d := 1; d <= 31; d++ {
			if !ref.Exists(y, m, d) {
				continue
			}
			func() {
				defer func() { recover() }()
				s := calendar.NewSolar(y, m, d, (d*5)%24, 30, 0)
				l := s.GetLunar()
				_ = s.ToFullString() + l.ToFullString() + l.GetTao().ToFullString() + l.GetFoto().ToFullString()
				s.GetFestivals()
				s.GetOtherFestivals()
				s.GetSalaryRate()
				l.GetEightChar().GetYun(d % 2).GetDaYun()
				calendar.NewSolarWeekFromYmd(y, m, d, d%7).GetIndexInYear()
				calendar.NewSolarMonthFromYm(y, m).GetWeeks(d % 7)
			}()
		}
	}
}

// lunarmon: runtime monitors for lunar-go properties C01..C20.
package main

import (
	"fmt"
	"os"
)

func main() {
	if len(os.Args) < 2 {
		fmt.Fprintln(os.Stderr, "usage: lunarmon run <Cxx> <quick|thorough> [--replay f] | lunarmon worker ... | lunarmon list")
		os.Exit(2)
	}
	switch os.Args[1] {
	case "run":
		os.Exit(runMain(os.Args[2:]))
	case "worker":
		os.Exit(workerMain(os.Args[2:]))
	case "c09child":
		os.Exit(c09ChildMain(os.Args[2:]))
	case "list":
		for id := range props {
			fmt.Println(id)
		}
	default:
		fmt.Fprintln(os.Stderr, "unknown command", os.Args[1])
		os.Exit(2)
	}
}

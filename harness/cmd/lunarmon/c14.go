package main

// C14 - holiday queries are views of one record set; workday stepping matches it.
// The record-set model is parsed from the hooked raw table, not through the search functions under test.

import (
	"fmt"
	"sort"
	"strings"

	"github.com/6tail/lunar-go/HolidayUtil"
	"github.com/6tail/lunar-go/calendar"
	"lunarmon/ref"
)

func init() {
	register(&Prop{
		ID:   "C14",
		Rule: "cases: 'views' (every day, month and year from 2001 to the last table year + 1, every distinct target and every day used as target: by-day / by-month / by-year / by-target results must equal the filters of the record-set model in date order), 'step' per year (from every day, n in +-{0..15, 30, 100, 365}: Solar.Next(n,true) must land where the model's working-day count lands), 'rate' per year (pay multiplier 3 / 2 / 1 by the statutory list), 'fix' batches (seeded fix-up strings that append future years, add days inside existing years, replace flag / name / target, remove, mix and repeat, with extended name lists; each scenario starts from VerifReset() and the table and all views are compared with the model afterwards). distinct_nontrivial counts distinct queries, (day, n) steps and fix-up scenarios.",
		Assumptions: []string{
			"hooks VerifDataInUse / VerifNamesInUse / VerifReset expose and restore the raw table",
			"a day works if it is a recorded make-up day or an unrecorded Monday-Friday (RefCal weekday)",
			"statutory triple-pay days as listed in the property: 1/1, 5/1, 10/1-3, lunar 1/1-3, 5/5, 8/15, Qingming day",
		},
		Gen: c14Gen, Run: c14Run,
		Exhaustive: func(tier string) bool { return false },
		MinEvals:   map[string]int64{"quick": 200000, "thorough": 1000000},
		Chunks:     64,
	})
}

type hrec struct {
	day    string // YYYYMMDD
	name   string
	work   bool
	target string // YYYYMMDD
}

func dash(s string) string { return s[0:4] + "-" + s[4:6] + "-" + s[6:8] }

func (r hrec) String() string {
	wd := ""
	if r.work {
		wd = "调休"
	}
	return dash(r.day) + " " + r.name + wd + " " + dash(r.target)
}

// parseTable parses the raw table; returns the records and a description of any structural problem.
func parseTable(data string, names []string) ([]hrec, string) {
	if len(data)%18 != 0 {
		return nil, fmt.Sprintf("table length %d is not a multiple of 18", len(data))
	}
	var out []hrec
	for i := 0; i+18 <= len(data); i += 18 {
		s := data[i : i+18]
		for k, c := range s {
			if k == 8 {
				continue
			}
			if c < '0' || c > '9' {
				return nil, fmt.Sprintf("record %q has a non-digit at position %d", s, k)
			}
		}
		ni := int(s[8]) - '0'
		if ni < 0 || ni >= len(names) {
			return nil, fmt.Sprintf("record %q has name index %d outside the %d names in use", s, ni, len(names))
		}
		out = append(out, hrec{s[0:8], names[ni], s[9] == '0', s[10:18]})
	}
	for i := 1; i < len(out); i++ {
		if out[i].day <= out[i-1].day {
			return out, fmt.Sprintf("records not in strictly increasing date order: %s after %s", out[i].day, out[i-1].day)
		}
	}
	return out, ""
}

func holStr(h *HolidayUtil.Holiday) string {
	if h == nil {
		return "nil"
	}
	// built from the getters, not from String(), so both are exercised
	wd := ""
	if h.IsWork() {
		wd = "调休"
	}
	return h.GetDay() + " " + h.GetName() + wd + " " + h.GetTarget()
}

func c14Gen(g *Gen) []Case {
	cs := []Case{{K: "views"}}
	for y := 2001; y <= 2027; y++ {
		cs = append(cs, Case{K: "step", A: []int{y}}, Case{K: "rate", A: []int{y}})
	}
	for k := 0; k < 8; k++ {
		cs = append(cs, Case{K: "shuffled", A: []int{k}})
	}
	// every possible single addition: all months in thorough, a seeded third of them in quick
	for y := 2000; y <= 2027; y++ {
		for m := 1; m <= 12; m++ {
			if !g.Quick || g.Rng.Intn(3) == 0 || (y == 2019 && m >= 10) || (y == 2021 && m == 12) {
				cs = append(cs, Case{K: "add1", A: []int{y, m}})
			}
		}
	}
	if g.Quick {
		cs = append(cs, batchCases("fix", 40, 5)...)
	} else {
		cs = append(cs, batchCases("fix", 500, 10)...)
	}
	return cs
}

func c14Run(w *W, c Case) {
	HolidayUtil.VerifReset()
	switch c.K {
	case "views":
		recs, prob := parseTable(HolidayUtil.VerifDataInUse(), HolidayUtil.VerifNamesInUse())
		if prob != "" {
			w.Violatef("table", "shipped", "shipped table: %s", prob)
			return
		}
		c14Views(w, recs, "shipped", true)
		w.Sample("views", map[string]interface{}{"records": len(recs), "first": recs[0].String(), "last": recs[len(recs)-1].String()})
	case "step":
		c14Step(w, c.A[0])
	case "rate":
		c14Rate(w, c.A[0])
	case "shuffled":
		c14Shuffled(w, c.A[0])
	case "add1":
		c14Add1(w, c.A[0], c.A[1])
	case "fix":
		for i := 0; i < c.A[1]; i++ {
			c14Fix(w, c.A[0]*1000+i)
		}
		HolidayUtil.VerifReset()
	}
}

func sameList(got []string, want []hrec) bool {
	if len(got) != len(want) {
		return false
	}
	for i := range got {
		if got[i] != want[i].String() {
			return false
		}
	}
	return true
}

// c14Views compares every view with the model. full=false restricts to the keys touched by the records in 'focus'.
func c14Views(w *W, recs []hrec, ctx string, full bool, focus ...hrec) {
	byDay := map[string]hrec{}
	byMonth := map[string][]hrec{}
	byYear := map[string][]hrec{}
	byTarget := map[string][]hrec{}
	for _, r := range recs {
		byDay[r.day] = r
		byMonth[r.day[:6]] = append(byMonth[r.day[:6]], r)
		byYear[r.day[:4]] = append(byYear[r.day[:4]], r)
		byTarget[r.target] = append(byTarget[r.target], r)
	}
	checkDay := func(d string) {
		y, m, dd := atoi(d[:4]), atoi(d[4:6]), atoi(d[6:8])
		w.Curf("C14 %s day %s", ctx, d)
		want := "nil"
		if r, ok := byDay[d]; ok {
			want = r.String()
		}
		g1, g2 := holStr(HolidayUtil.GetHoliday(dash(d))), holStr(HolidayUtil.GetHolidayByYmd(y, m, dd))
		g3 := holStr(HolidayUtil.GetHoliday(d))
		if g1 != want || g2 != want || g3 != want {
			w.Violatef("by-day", ctx+"/"+d, "[%s] day %s: GetHoliday=%s GetHolidayByYmd=%s, record set has %s", ctx, dash(d), g1, g2, want)
		}
		var wl []hrec
		if r, ok := byDay[d]; ok {
			wl = []hrec{r}
		}
		if gl := listStrings(HolidayUtil.GetHolidays(dash(d))); !sameStr(gl, wl) {
			w.Violatef("by-day", ctx+"/list/"+d, "[%s] GetHolidays(%s)=%v, record set has %v", ctx, dash(d), gl, wl)
		}
		// the day used as a target
		gt := listStrings(HolidayUtil.GetHolidaysByTarget(dash(d)))
		gt2 := listStrings(HolidayUtil.GetHolidaysByTargetYmd(y, m, dd))
		if !sameStr(gt, byTarget[d]) || !sameStr(gt2, byTarget[d]) {
			w.Violatef("by-target", ctx+"/"+d, "[%s] target %s: GetHolidaysByTarget=%v, record set has %v", ctx, dash(d), gt, byTarget[d])
		}
		w.Eval(5)
		w.Distinct(1)
	}
	checkMonth := func(ym string) {
		gl := listStrings(HolidayUtil.GetHolidaysByYm(atoi(ym[:4]), atoi(ym[4:6])))
		gl2 := listStrings(HolidayUtil.GetHolidays(ym[:4] + "-" + ym[4:6]))
		if !sameStr(gl, byMonth[ym]) || !sameStr(gl2, byMonth[ym]) {
			w.Violatef("by-month", ctx+"/"+ym, "[%s] month %s: GetHolidaysByYm=%v, record set has %v", ctx, ym, gl, byMonth[ym])
		}
		w.Eval(2)
		w.Distinct(1)
	}
	checkYear := func(y string) {
		gl := listStrings(HolidayUtil.GetHolidaysByYear(atoi(y)))
		gl2 := listStrings(HolidayUtil.GetHolidays(y))
		if !sameStr(gl, byYear[y]) || !sameStr(gl2, byYear[y]) {
			w.Violatef("by-year", ctx+"/"+y, "[%s] year %s: GetHolidaysByYear has %d records %v, record set has %d %v", ctx, y, len(gl), gl, len(byYear[y]), byYear[y])
		}
		w.Eval(2)
		w.Distinct(1)
	}
	if full {
		lastYear := atoi(recs[len(recs)-1].day[:4]) + 1
		for y := 2001; y <= lastYear; y++ {
			checkYear(fmt.Sprintf("%04d", y))
			for m := 1; m <= 12; m++ {
				checkMonth(fmt.Sprintf("%04d%02d", y, m))
				for d := 1; d <= ref.LastDayOfMonth(y, m); d++ {
					checkDay(fmt.Sprintf("%04d%02d%02d", y, m, d))
				}
			}
		}
		for t := range byTarget {
			checkDay(t)
		}
		return
	}
	seen := map[string]bool{}
	for _, r := range focus {
		for _, d := range []string{r.day, r.target} {
			if !seen[d] {
				seen[d] = true
				checkDay(d)
			}
			if !seen[d[:6]] {
				seen[d[:6]] = true
				checkMonth(d[:6])
			}
			if !seen[d[:4]] {
				seen[d[:4]] = true
				checkYear(d[:4])
			}
		}
	}
}

func sameStr(got []string, want []hrec) bool { return sameList(got, want) }

// c14AllYM: every by-year and by-month view from 1995 to 2031 against the record set (a fix-up touching one record
// must leave the views of every other year and month alone).
func c14AllYM(w *W, recs []hrec, ctx string) {
	byMonth := map[string][]hrec{}
	byYear := map[string][]hrec{}
	for _, r := range recs {
		byMonth[r.day[:6]] = append(byMonth[r.day[:6]], r)
		byYear[r.day[:4]] = append(byYear[r.day[:4]], r)
	}
	for y := 1995; y <= 2031; y++ {
		ys := fmt.Sprintf("%04d", y)
		if gl := listStrings(HolidayUtil.GetHolidaysByYear(y)); !sameStr(gl, byYear[ys]) {
			w.Violatef("by-year", ctx+"/"+ys, "[%s] year %s: GetHolidaysByYear has %d records %v, record set has %d %v", ctx, ys, len(gl), gl, len(byYear[ys]), byYear[ys])
		}
		for m := 1; m <= 12; m++ {
			ym := fmt.Sprintf("%04d%02d", y, m)
			if gl := listStrings(HolidayUtil.GetHolidaysByYm(y, m)); !sameStr(gl, byMonth[ym]) {
				w.Violatef("by-month", ctx+"/"+ym, "[%s] month %s: GetHolidaysByYm=%v, record set has %v", ctx, ym, gl, byMonth[ym])
			}
		}
		w.Eval(13)
	}
}

// c14Shuffled: the views asked in a seeded shuffled order (the "views" case walks forwards through the calendar, so a
// look-up that remembers where the previous one ended would never be asked to go back).
func c14Shuffled(w *W, k int) {
	w.Class("shuffled-lookups")
	recs, _ := parseTable(HolidayUtil.VerifDataInUse(), HolidayUtil.VerifNamesInUse())
	byDay := map[string]hrec{}
	byMonth := map[string][]hrec{}
	byYear := map[string][]hrec{}
	byTarget := map[string][]hrec{}
	var days []string
	for _, r := range recs {
		byDay[r.day] = r
		byMonth[r.day[:6]] = append(byMonth[r.day[:6]], r)
		byYear[r.day[:4]] = append(byYear[r.day[:4]], r)
		byTarget[r.target] = append(byTarget[r.target], r)
	}
	// recorded days, their neighbours, and a sprinkling of ordinary days
	for _, r := range recs {
		j := ref.JDN(atoi(r.day[:4]), atoi(r.day[4:6]), atoi(r.day[6:8]))
		for dj := -2; dj <= 2; dj++ {
			y, m, d := ref.FromJDN(j + dj)
			days = append(days, fmt.Sprintf("%04d%02d%02d", y, m, d))
		}
	}
	rng := w.Rng
	for i := 0; i < 2000; i++ {
		y, m, d := randDayIn(rng, 2000, 2027)
		days = append(days, fmt.Sprintf("%04d%02d%02d", y, m, d))
	}
	rng.Shuffle(len(days), func(i, j int) { days[i], days[j] = days[j], days[i] })
	if k < 7 {
		days = days[:len(days)/3]
	}
	for i, d := range days {
		y, m, dd := atoi(d[:4]), atoi(d[4:6]), atoi(d[6:8])
		w.Curf("C14 shuffled lookup %s", d)
		want := "nil"
		if r, ok := byDay[d]; ok {
			want = r.String()
		}
		switch i % 4 {
		case 0, 1:
			if got := holStr(HolidayUtil.GetHolidayByYmd(y, m, dd)); got != want {
				w.Violatef("by-day", "shuffled/"+d, "GetHolidayByYmd(%s) = %s after look-ups of other days, record set has %s", dash(d), got, want)
			}
		case 2:
			if gl := listStrings(HolidayUtil.GetHolidaysByYm(y, m)); !sameStr(gl, byMonth[d[:6]]) {
				w.Violatef("by-month", "shuffled/"+d[:6], "GetHolidaysByYm(%d,%d) = %v after look-ups of other days, record set has %v", y, m, gl, byMonth[d[:6]])
			}
			if gl := listStrings(HolidayUtil.GetHolidaysByTargetYmd(y, m, dd)); !sameStr(gl, byTarget[d]) {
				w.Violatef("by-target", "shuffled/"+d, "GetHolidaysByTargetYmd(%s) = %v after look-ups of other days, record set has %v", dash(d), gl, byTarget[d])
			}
		case 3:
			if gl := listStrings(HolidayUtil.GetHolidaysByYear(y)); !sameStr(gl, byYear[d[:4]]) {
				w.Violatef("by-year", "shuffled/"+d[:4], "GetHolidaysByYear(%d) has %d records after look-ups of other days, record set has %d", y, len(gl), len(byYear[d[:4]]))
			}
			// stepping over working days from here, both ways, against the record set
			j := ref.JDN(y, m, dd)
			for _, n := range []int{2, -2} {
				e, rest, dir := j, 2, 1
				if n < 0 {
					dir = -1
				}
				for rest > 0 {
					e += dir
					if c14Working(byDay, e) {
						rest--
					}
				}
				ey, em, ed := ref.FromJDN(e)
				if got := calendar.NewSolarFromYmd(y, m, dd).Next(n, true).ToYmd(); got != ymd(ey, em, ed) {
					w.Violatef("workday-step", fmt.Sprintf("shuffled/%s%+d", d, n), "%s.Next(%d,true) = %s after look-ups of other days, the record set puts it at %s", dash(d), n, got, ymd(ey, em, ed))
				}
			}
		}
		w.Eval(1)
		w.Distinct(1)
	}
}

// c14Add1: every single-record addition in one month (each day, three kinds of target), each from a fresh table:
// all year and month views, the day itself and its target must equal the record set with that one record added.
func c14Add1(w *W, y, m int) {
	w.Class("single-additions")
	HolidayUtil.VerifReset()
	names := HolidayUtil.VerifNamesInUse()
	base, _ := parseTable(HolidayUtil.VerifDataInUse(), names)
	has := map[string]bool{}
	for _, r := range base {
		has[r.day] = true
	}
	for d := 1; d <= ref.LastDayOfMonth(y, m); d++ {
		day := fmt.Sprintf("%04d%02d%02d", y, m, d)
		if has[day] {
			continue
		}
		for k, target := range []string{day, fmt.Sprintf("%04d1001", y), fmt.Sprintf("%04d0101", y+1)} {
			ni := (d + k) % len(names)
			nr := hrec{day: day, name: names[ni], work: (d+k)%2 == 0, target: target}
			seg := day + string(rune('0'+ni)) + map[bool]string{true: "0", false: "1"}[nr.work] + target
			HolidayUtil.VerifReset()
			w.Curf("C14 single addition %s", seg)
			if pv := Call(func() { HolidayUtil.Fix(nil, seg) }); pv != nil {
				w.Violatef("fix", "add1/"+seg, "Fix(nil, %q) panicked: %v", seg, pv)
				continue
			}
			want := append(append([]hrec{}, base...), nr)
			sort.Slice(want, func(i, j int) bool { return want[i].day < want[j].day })
			ctx := "after Fix " + seg
			c14AllYM(w, want, ctx)
			c14Views(w, want, ctx, false, nr)
			w.Distinct(1)
			w.Count("single-additions", 1)
		}
	}
	HolidayUtil.VerifReset()
}

func atoi(s string) int {
	n := 0
	for _, c := range s {
		n = n*10 + int(c-'0')
	}
	return n
}

// working-day model
func c14Working(byDay map[string]hrec, jdn int) bool {
	y, m, d := ref.FromJDN(jdn)
	if r, ok := byDay[fmt.Sprintf("%04d%02d%02d", y, m, d)]; ok {
		return r.work
	}
	wd := ref.Weekday(jdn)
	return wd != 0 && wd != 6
}

func c14Model() map[string]hrec {
	recs, _ := parseTable(HolidayUtil.VerifDataInUse(), HolidayUtil.VerifNamesInUse())
	byDay := map[string]hrec{}
	for _, r := range recs {
		byDay[r.day] = r
	}
	return byDay
}

var c14Ns = []int{0, 1, 2, 3, 4, 5, 6, 7, 8, 9, 10, 11, 12, 13, 14, 15, 30, 100, 365}

func c14Step(w *W, y int) {
	w.Class("step")
	byDay := c14Model()
	for j := ref.JDN(y, 1, 1); j <= ref.JDN(y, 12, 31); j++ {
		cy, cm, cd := ref.FromJDN(j)
		s := calendar.NewSolar(cy, cm, cd, 8, 30, 15)
		for k, n0 := range c14Ns {
			if n0 > 15 && (j+k)%5 != 0 {
				continue
			}
			for _, n := range []int{n0, -n0} {
				if n == 0 && n0 != 0 {
					continue
				}
				w.Curf("C14 step %s %+d", ymd(cy, cm, cd), n)
				// model: walk day by day counting working days
				e := j
				rest := absInt(n)
				dir := 1
				if n < 0 {
					dir = -1
				}
				for rest > 0 {
					e += dir
					if c14Working(byDay, e) {
						rest--
					}
				}
				ey, em, ed := ref.FromJDN(e)
				got := s.Next(n, true)
				if got.ToYmdHms() != ymd(ey, em, ed)+" 08:30:15" {
					w.Violatef("workday-step", fmt.Sprintf("%s%+d", ymd(cy, cm, cd), n), "%s.Next(%d,true) = %s, the record set puts the %d-th working day at %s", ymd(cy, cm, cd), n, got.ToYmdHms(), n, ymd(ey, em, ed))
				}
				if n != 0 && !c14Working(byDay, ref.JDN(got.GetYear(), got.GetMonth(), got.GetDay())) {
					w.Violatef("workday-step", fmt.Sprintf("%s%+d/landing", ymd(cy, cm, cd), n), "%s.Next(%d,true) lands on %s which is not a working day", ymd(cy, cm, cd), n, got.ToYmd())
				}
				w.Eval(1)
				w.Distinct(1)
			}
		}
	}
}

func c14Rate(w *W, y int) {
	w.Class("rate")
	byDay := c14Model()
	tbl := calendar.NewSolarFromYmd(y, 6, 15).GetLunar().GetJieQiTable()
	qm := tbl["清明"]
	qj := ref.JDN(qm.GetYear(), qm.GetMonth(), qm.GetDay())
	for j := ref.JDN(y, 1, 1); j <= ref.JDN(y, 12, 31); j++ {
		cy, cm, cd := ref.FromJDN(j)
		s := calendar.NewSolarFromYmd(cy, cm, cd)
		w.Curf("C14 rate %s", ymd(cy, cm, cd))
		l := s.GetLunar()
		lm, ld := l.GetMonth(), l.GetDay()
		want := 1
		statutory := (cm == 1 && cd == 1) || (cm == 5 && cd == 1) || (cm == 10 && cd >= 1 && cd <= 3) || (lm == 1 && ld >= 1 && ld <= 3) || (lm == 5 && ld == 5) || (lm == 8 && ld == 15) || j == qj
		if statutory {
			want = 3
		} else if !c14Working(byDay, j) {
			want = 2
		}
		if got := s.GetSalaryRate(); got != want {
			w.Violatef("salary-rate", ymd(cy, cm, cd), "GetSalaryRate(%s)=%d, rule gives %d (statutory=%v, working=%v)", ymd(cy, cm, cd), got, want, statutory, c14Working(byDay, j))
		}
		// the multiplier is the day's: a Solar of the same day that carries a clock time, or that was reached by stepping
		// or through a Julian day, gets the same answer
		t := T0[j%len(T0)]
		for ri, s2 := range []*calendar.Solar{calendar.NewSolar(cy, cm, cd, t[0], t[1], t[2]), calendar.NewSolar(cy, cm, cd, 23, 59, 59), s.NextDay(-1).NextDay(1), calendar.NewSolar(cy, cm, cd, 12, 0, 0).GetLunar().GetSolar(), calendar.NewSolarFromJulianDay(calendar.NewSolar(cy, cm, cd, 18, 30, 0).GetJulianDay())} {
			if got := s2.GetSalaryRate(); got != want {
				w.Violatef("salary-rate", fmt.Sprintf("%s/route%d", ymd(cy, cm, cd), ri), "GetSalaryRate of %s (route %d: clock time / 23:59:59 / stepped / via lunar / via Julian day) = %d, rule gives %d for the day", s2.ToYmdHms(), ri, got, want)
			}
		}
		w.Eval(5)
		if statutory {
			w.Count("statutory-days", 1)
		}
		w.Eval(1)
		w.Distinct(1)
	}
}

// ---- Fix fuzzer

func c14Fix(w *W, id int) {
	rng := w.Rng
	HolidayUtil.VerifReset()
	names := HolidayUtil.VerifNamesInUse()
	recs, _ := parseTable(HolidayUtil.VerifDataInUse(), names)
	model := map[string]hrec{}
	for _, r := range recs {
		model[r.day] = r
	}
	var history []string
	var touched []hrec
	// by-day lookups made BEFORE later fix-ups (a memo of by-day results must not survive a fix-up), and the objects they
	// returned are then modified through their public setters (returned records must not be shared with the table)
	lookupAndScribble := func() {
		var days []string
		for d := range model {
			days = append(days, d)
		}
		sort.Strings(days)
		for k := 0; k < 6 && len(days) > 0; k++ {
			d := days[rng.Intn(len(days))]
			if k < len(touched) {
				d = touched[len(touched)-1-k].day
			}
			want := "nil"
			if r, ok := model[d]; ok {
				want = r.String()
			}
			h := HolidayUtil.GetHoliday(dash(d))
			if got := holStr(h); got != want {
				w.Violatef("by-day", fmt.Sprintf("fix%d/mid/%s", id, d), "after Fix %s: GetHoliday(%s)=%s, record set has %s", strings.Join(history, " | "), dash(d), got, want)
			}
			if h != nil {
				h.SetName("改名")
				h.SetWork(!h.IsWork())
				h.SetTarget("1999-09-09")
				if got := holStr(HolidayUtil.GetHoliday(dash(d))); got != want {
					w.Violatef("returned-object-shared", fmt.Sprintf("fix%d/%s", id, d), "GetHoliday(%s) returned %s after an earlier result for the same day was modified through its setters; the record set has %s", dash(d), got, want)
				}
			}
			w.Eval(2)
		}
	}
	rounds := 1 + rng.Intn(4)
	for round := 0; round < rounds; round++ {
		var newNames []string
		switch {
		case round == 0 && rng.Intn(3) == 0:
			// a long name list from the start: indexes 10+ are stored as ':' ';' '<' ...
			newNames = append([]string{}, names...)
			for len(newNames) < 11+rng.Intn(4) {
				newNames = append(newNames, fmt.Sprintf("新节日%d", len(newNames)))
			}
		case rng.Intn(4) == 0 && len(names) < 14:
			newNames = append(append([]string{}, names...), fmt.Sprintf("新节日%d", len(names)))
		case rng.Intn(5) == 0:
			// rename an entry (same length list): every record using it must show the new name in every view
			newNames = append([]string{}, names...)
			k := rng.Intn(len(newNames))
			old := newNames[k]
			newNames[k] = old + "改"
			for d, r := range model {
				if r.name == old {
					r.name = newNames[k]
					model[d] = r
					touched = append(touched, r)
				}
			}
		}
		if newNames != nil {
			names = newNames
		}
		if newNames != nil && rng.Intn(3) == 0 {
			// names-only fix-up
			history = append(history, fmt.Sprintf("names(%d) only", len(newNames)))
			if pv := Call(func() { HolidayUtil.Fix(newNames, "") }); pv != nil {
				w.Violatef("fix", fmt.Sprintf("%d/panic-names", id), "Fix(names, \"\") panicked: %v", pv)
				return
			}
			lookupAndScribble()
			continue
		}
		nseg := 1 + rng.Intn(6)
		dt := ""
		used := map[string]bool{}
		for k := 0; k < nseg; k++ {
			var day string
			var existing []string
			for d := range model {
				existing = append(existing, d)
			}
			sort.Strings(existing)
			kind := rng.Intn(6)
			switch kind {
			case 0: // future year
				day = fmt.Sprintf("%04d%02d%02d", 2026+rng.Intn(5), 1+rng.Intn(12), 1+rng.Intn(28))
			case 1: // a new day inside an existing year
				day = fmt.Sprintf("%04d%02d%02d", 2002+rng.Intn(23), 1+rng.Intn(12), 1+rng.Intn(28))
			case 2: // before the first record, or a statutory festival day (lunar 1/1-3, 5/5, 8/15, Qingming) of a table year
				day = fmt.Sprintf("%04d%02d%02d", 1995+rng.Intn(6), 1+rng.Intn(12), 1+rng.Intn(28))
				if rng.Intn(2) == 0 {
					yy := 2002 + rng.Intn(24)
					md := [][2]int{{1, 1}, {1, 2}, {1, 3}, {5, 5}, {8, 15}}[rng.Intn(5)]
					var fs *calendar.Solar
					if rng.Intn(4) == 0 {
						fs = calendar.NewSolarFromYmd(yy, 6, 15).GetLunar().GetJieQiTable()["清明"]
					} else {
						fs = calendar.NewLunarFromYmd(yy, md[0], md[1]).GetSolar()
					}
					day = fmt.Sprintf("%04d%02d%02d", fs.GetYear(), fs.GetMonth(), fs.GetDay())
				}
			default: // an existing record (replace or remove), preferably one this scenario added or changed earlier
				day = existing[rng.Intn(len(existing))]
				if len(touched) > 0 && rng.Intn(2) == 0 {
					if cand := touched[rng.Intn(len(touched))].day; model[cand].day != "" {
						day = cand
					}
				}
			}
			// the same day may be named again later in one fix-up string (the segments apply in order); mostly it is not
			if used[day] && rng.Intn(3) != 0 {
				continue
			}
			used[day] = true
			old, exists := model[day]
			if kind == 5 || (exists && rng.Intn(3) == 0) {
				// removal segment: day + '~' + anything
				seg := day + "~" + "000000000"
				dt += seg
				if exists {
					delete(model, day)
					touched = append(touched, old)
				}
				continue
			}
			ni := rng.Intn(len(names))
			nr := hrec{day: day, name: names[ni], work: rng.Intn(2) == 0, target: day}
			switch rng.Intn(4) {
			case 0:
				nr.target = day[:4] + "1001"
			case 1:
				if exists {
					nr.target = old.target
				}
			case 2:
				// a correction of the target alone: name and flag as recorded
				if exists {
					nr.name, nr.work = old.name, old.work
					for i, n := range names {
						if n == old.name {
							ni = i
						}
					}
					nr.target = day[:4] + []string{"0101", "0501", "1001", "0405"}[rng.Intn(4)]
				}
			}
			dt += day + string(rune('0'+ni)) + map[bool]string{true: "0", false: "1"}[nr.work] + nr.target
			model[day] = nr
			touched = append(touched, nr)
			if exists {
				touched = append(touched, old)
			}
		}
		if dt == "" {
			continue
		}
		history = append(history, dt)
		w.Curf("C14 fix %d: %s", id, strings.Join(history, " | "))
		if pv := Call(func() { HolidayUtil.Fix(newNames, dt) }); pv != nil {
			w.Violatef("fix", fmt.Sprintf("%d/panic", id), "Fix(%v, %q) after %v panicked: %v", newNames, dt, history[:len(history)-1], pv)
			return
		}
		lookupAndScribble()
	}
	ctx := fmt.Sprintf("after Fix %s", strings.Join(history, " | "))
	if len(ctx) > 300 {
		ctx = ctx[:300] + "..."
	}
	got, prob := parseTable(HolidayUtil.VerifDataInUse(), HolidayUtil.VerifNamesInUse())
	if prob != "" {
		w.Violatef("fix-table", fmt.Sprintf("%d", id), "%s: %s", ctx, prob)
		return
	}
	var want []hrec
	for _, r := range model {
		want = append(want, r)
	}
	sort.Slice(want, func(i, j int) bool { return want[i].day < want[j].day })
	if len(got) != len(want) {
		w.Violatef("fix-records", fmt.Sprintf("%d/count", id), "%s: table has %d records, model has %d", ctx, len(got), len(want))
	} else {
		for i := range got {
			if got[i] != want[i] {
				w.Violatef("fix-records", fmt.Sprintf("%d/%s", id, want[i].day), "%s: record %d is %v, model has %v", ctx, i, got[i], want[i])
				break
			}
		}
	}
	w.Eval(len(want))
	// the views must reflect the fix-ups (keys touched by this scenario)
	c14Views(w, want, ctx, false, touched...)
	c14AllYM(w, want, ctx)
	// ... and so must workday stepping and the pay multiplier around every touched day
	byDay := map[string]hrec{}
	for _, r := range want {
		byDay[r.day] = r
	}
	for _, r := range touched {
		y, m, d := atoi(r.day[:4]), atoi(r.day[4:6]), atoi(r.day[6:8])
		if !ref.Exists(y, m, d) {
			continue
		}
		j := ref.JDN(y, m, d)
		s := calendar.NewSolarFromYmd(y, m, d)
		l := s.GetLunar()
		qm := l.GetJieQiTable()["清明"]
		statutory := (m == 1 && d == 1) || (m == 5 && d == 1) || (m == 10 && d >= 1 && d <= 3) || (l.GetMonth() == 1 && l.GetDay() >= 1 && l.GetDay() <= 3) || (l.GetMonth() == 5 && l.GetDay() == 5) || (l.GetMonth() == 8 && l.GetDay() == 15) || (qm != nil && qm.GetYear() == y && qm.GetMonth() == m && qm.GetDay() == d)
		wantRate := 1
		if statutory {
			wantRate = 3
		} else if !c14Working(byDay, j) {
			wantRate = 2
		}
		if got := s.GetSalaryRate(); got != wantRate {
			w.Violatef("salary-rate", fmt.Sprintf("fix%d/%s", id, r.day), "%s: GetSalaryRate(%s)=%d, rule gives %d (statutory=%v, working=%v)", ctx, dash(r.day), got, wantRate, statutory, c14Working(byDay, j))
		}
		for _, n := range []int{1, -1, 3, -3} {
			e, rest, dir := j-n, absInt(n), 1
			if n < 0 {
				dir = -1
			}
			start := e
			for rest > 0 {
				e += dir
				if c14Working(byDay, e) {
					rest--
				}
			}
			sy, sm, sd := ref.FromJDN(start)
			ey, em, ed := ref.FromJDN(e)
			if got := calendar.NewSolarFromYmd(sy, sm, sd).Next(n, true).ToYmd(); got != ymd(ey, em, ed) {
				w.Violatef("workday-step", fmt.Sprintf("fix%d/%s%+d", id, ymd(sy, sm, sd), n), "%s: %s.Next(%d,true) = %s, the record set puts it at %s", ctx, ymd(sy, sm, sd), n, got, ymd(ey, em, ed))
			}
		}
		w.Eval(5)
	}
	w.Distinct(1)
	w.Count("fix-scenarios", 1)
	if id%1000 == 0 {
		w.Sample("fix", history)
	}
}

package main

// Reflective accessor walker. Only methods whose receiver type is declared in
// github.com/6tail/lunar-go/... are ever invoked: containers (*list.List, slices,
// maps) are iterated, never called (calling (*list.List).Init through reflection
// would wipe a Lunar's internal term list).

import (
	"container/list"
	"fmt"
	"reflect"
	"sort"
	"strings"
)

const libPkgPrefix = "github.com/6tail/lunar-go"

func isLibType(t reflect.Type) bool {
	for t.Kind() == reflect.Ptr {
		t = t.Elem()
	}
	return strings.HasPrefix(t.PkgPath(), libPkgPrefix)
}

func typeName(t reflect.Type) string {
	for t.Kind() == reflect.Ptr {
		t = t.Elem()
	}
	return t.Name()
}

// zeroArgMethods lists the exported methods of v's type that take no parameters and return at least one value.
func zeroArgMethods(t reflect.Type) []reflect.Method {
	var ms []reflect.Method
	for i := 0; i < t.NumMethod(); i++ {
		m := t.Method(i)
		if m.Type.NumIn() != 1 || m.Type.NumOut() < 1 {
			continue
		}
		ms = append(ms, m)
	}
	return ms
}

// visitFn is called for every accessor invocation.
type visitFn func(recvType, method string, out reflect.Value, pv interface{})

// callMethod invokes a zero-arg method with panic capture.
func callMethod(recv reflect.Value, m reflect.Method) (out reflect.Value, pv interface{}) {
	defer func() {
		if r := recover(); r != nil {
			pv = r
		}
	}()
	res := m.Func.Call([]reflect.Value{recv})
	return res[0], nil
}

// render turns a value into a canonical string. depth > 0 expands library objects through
// their own accessors; depth 0 renders them by String()/ToString() or their type name.
func render(v reflect.Value, depth int, visit visitFn) string {
	if !v.IsValid() {
		return "invalid"
	}
	switch v.Kind() {
	case reflect.Ptr, reflect.Interface:
		if v.IsNil() {
			return "nil"
		}
	}
	if v.Kind() == reflect.Interface {
		return render(v.Elem(), depth, visit)
	}
	t := v.Type()
	if t == reflect.TypeOf((*list.List)(nil)) {
		l := v.Interface().(*list.List)
		var parts []string
		for e := l.Front(); e != nil; e = e.Next() {
			parts = append(parts, render(reflect.ValueOf(e.Value), depth, visit))
		}
		return "[" + strings.Join(parts, ",") + "]"
	}
	switch v.Kind() {
	case reflect.Slice, reflect.Array:
		var parts []string
		for i := 0; i < v.Len(); i++ {
			parts = append(parts, render(v.Index(i), depth, visit))
		}
		return "[" + strings.Join(parts, ",") + "]"
	case reflect.Map:
		keys := v.MapKeys()
		ks := make([]string, len(keys))
		km := map[string]reflect.Value{}
		for i, k := range keys {
			ks[i] = fmt.Sprint(k.Interface())
			km[ks[i]] = k
		}
		sort.Strings(ks)
		var parts []string
		for _, k := range ks {
			parts = append(parts, k+":"+render(v.MapIndex(km[k]), depth, visit))
		}
		return "{" + strings.Join(parts, ",") + "}"
	}
	if isLibType(t) && (v.Kind() == reflect.Ptr || v.Kind() == reflect.Struct) {
		if depth > 0 {
			return walkObject(v, depth-1, visit)
		}
		if v.Kind() == reflect.Ptr {
			if m, ok := t.MethodByName("ToYmdHms"); ok {
				if o, pv := callMethod(v, m); pv == nil {
					return typeName(t) + "(" + o.String() + ")"
				}
			}
			for _, name := range []string{"String", "ToString"} {
				if m, ok := t.MethodByName(name); ok && m.Type.NumIn() == 1 && m.Type.NumOut() == 1 {
					if o, pv := callMethod(v, m); pv == nil {
						return typeName(t) + "(" + o.String() + ")"
					} else {
						return typeName(t) + "(panic:" + fmt.Sprint(pv) + ")"
					}
				}
			}
		}
		return typeName(t)
	}
	return fmt.Sprint(v.Interface())
}

// walkObject calls every zero-arg accessor of a library object and returns the canonical
// rendering "Type{M1=..;M2=..}".
func walkObject(v reflect.Value, depth int, visit visitFn) string {
	t := v.Type()
	var sb strings.Builder
	sb.WriteString(typeName(t))
	sb.WriteString("{")
	for _, m := range zeroArgMethods(t) {
		out, pv := callMethod(v, m)
		if visit != nil {
			visit(typeName(t), m.Name, out, pv)
		}
		sb.WriteString(m.Name)
		sb.WriteString("=")
		if pv != nil {
			sb.WriteString("panic:" + fmt.Sprint(pv))
		} else {
			sb.WriteString(render(out, depth, visit))
		}
		sb.WriteString(";")
	}
	sb.WriteString("}")
	return sb.String()
}

// digest1 renders all zero-arg accessors of obj one level deep (results that are library
// objects are rendered by their String form).
func digest1(obj interface{}) string {
	return walkObject(reflect.ValueOf(obj), 0, nil)
}

// diffDigests returns the first accessor at which two digests differ.
func diffDigests(a, b string) string {
	pa := strings.Split(a, ";")
	pb := strings.Split(b, ";")
	for i := 0; i < len(pa) && i < len(pb); i++ {
		if pa[i] != pb[i] {
			x, y := pa[i], pb[i]
			if len(x) > 200 {
				x = x[:200]
			}
			if len(y) > 200 {
				y = y[:200]
			}
			return x + "  <>  " + y
		}
	}
	return fmt.Sprintf("lengths %d vs %d", len(pa), len(pb))
}

// firstCallDiffs: every zero-argument accessor asked as the FIRST question on a freshly built object must give what it
// gives on an object that has already answered all the others (answers do not depend on the order of questions, and no
// accessor relies on another one having run before it). Returns one line per accessor that differs.
func firstCallDiffs(mk func() interface{}) []string {
	used := reflect.ValueOf(mk())
	ms := zeroArgMethods(used.Type())
	walked := map[string]string{}
	for pass := 0; pass < 2; pass++ { // second pass: the answers of the fully used object
		for _, m := range ms {
			out, pv := callMethod(used, m)
			if pv != nil {
				walked[m.Name] = "panic:" + fmt.Sprint(pv)
			} else {
				walked[m.Name] = render(out, 0, nil)
			}
		}
	}
	var diffs []string
	for _, m := range ms {
		fresh := reflect.ValueOf(mk())
		out, pv := callMethod(fresh, m)
		got := ""
		if pv != nil {
			got = "panic:" + fmt.Sprint(pv)
		} else {
			got = render(out, 0, nil)
		}
		if got != walked[m.Name] {
			a, b := got, walked[m.Name]
			if len(a) > 160 {
				a = a[:160]
			}
			if len(b) > 160 {
				b = b[:160]
			}
			diffs = append(diffs, fmt.Sprintf("%s asked first = %s, on the used object = %s", m.Name, a, b))
		}
	}
	return diffs
}

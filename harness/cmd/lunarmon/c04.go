package main

// C04 - civil date arithmetic is exact: Julian Day inverse, additive steps, 1582 gap.
// Oracle: ref.RefCal (integer JDN model, no lunar-go code).

import (
	"fmt"
	"math"

	"github.com/6tail/lunar-go/SolarUtil"
	"github.com/6tail/lunar-go/calendar"
	"lunarmon/ref"
)

var c04Steps = []int{0, 1, -1, 2, -2, 6, -6, 7, -7, 28, -28, 29, -29, 30, -30, 31, -31, 59, -59, 60, -60, 354, -354, 355, -355, 365, -365, 366, -366, 384, -384, 3652, -3652, 36525, -36525, 1000000, -1000000}

// days on which every second is walked
var c04BoundaryDays = [][3]int{
	{1, 1, 1}, {9998, 12, 31}, {1582, 10, 4}, {1582, 10, 15}, {1582, 12, 31}, {1583, 1, 1}, {1600, 2, 29}, {1500, 2, 29}, {1700, 2, 28},
	{2000, 2, 29}, {2020, 1, 31}, {2023, 12, 31}, {2024, 2, 29}, {1999, 12, 31}, {100, 2, 29}, {4, 2, 29}, {1582, 10, 1}, {2100, 2, 28}, {1900, 3, 1}, {5000, 6, 30},
}

func init() {
	register(&Prop{
		ID:   "C04",
		Rule: "cases: every civil day of years 1..9998 (JD, inverse, weekday, lengths, successor); every second of boundary days incl. real-valued JDs offset by fractions of a second; seeded random seconds; seeded step programs (days/hours/months/years, both signs). distinct_nontrivial counts distinct civil days, distinct seconds and distinct (start, step) pairs judged; a case is non-trivial when its expected value comes from the integer JDN model rather than being fixed by construction.",
		Assumptions: []string{
			"RefCal (Fliegel-Van Flandern/Richards integer algorithms, self-tested for inverse and continuity over the whole range) is the definition of the proleptic Julian / Gregorian civil calendar",
			"a real-valued Julian Day denotes the civil second nearest to it (ties accepted either way)",
		},
		Gen: c04Gen, Run: c04Run,
		Exhaustive: func(string) bool { return false },
		MinEvals:   map[string]int64{"quick": 10000000, "thorough": 30000000},
		Chunks:     96,
	})
}

func c04Gen(g *Gen) []Case {
	cs := yearCases("days", allYears())
	nb := len(c04BoundaryDays)
	if g.Quick {
		nb = 8
	}
	for _, d := range c04BoundaryDays[:nb] {
		cs = append(cs, Case{K: "secs", A: []int{d[0], d[1], d[2]}})
	}
	if g.Quick {
		cs = append(cs, batchCases("rsecs", 40, 20000)...)
		cs = append(cs, batchCases("steps", 40, 2500)...)
	} else {
		// more boundary days: every month end of a few years
		for _, y := range []int{1, 1582, 1600, 1900, 2024, 9998} {
			for m := 1; m <= 12; m++ {
				cs = append(cs, Case{K: "secs", A: []int{y, m, ref.LastDayOfMonth(y, m)}})
			}
		}
		cs = append(cs, batchCases("rsecs", 200, 100000)...)
		cs = append(cs, batchCases("steps", 200, 20000)...)
	}
	return cs
}

func c04Run(w *W, c Case) {
	switch c.K {
	case "days":
		c04Days(w, c.A[0])
	case "secs":
		c04Secs(w, c.A[0], c.A[1], c.A[2])
	case "rsecs":
		for i := 0; i < c.A[1]; i++ {
			t := randStamp(w.Rng)
			c04Second(w, t, i%16 == 0)
			w.Distinct(1)
		}
	case "steps":
		for i := 0; i < c.A[1]; i++ {
			c04StepCase(w, i)
		}
	}
}

func c04Days(w *W, y int) {
	w.Class(fmt.Sprintf("days/century%02d", y/100))
	if SolarUtil.IsLeapYear(y) != ref.IsLeap(y) {
		w.Violatef("lengths", fmt.Sprintf("leap/%d", y), "IsLeapYear(%d)=%v, reference %v", y, SolarUtil.IsLeapYear(y), ref.IsLeap(y))
	}
	if SolarUtil.GetDaysOfYear(y) != ref.DaysInYear(y) {
		w.Violatef("lengths", fmt.Sprintf("doy/%d", y), "GetDaysOfYear(%d)=%d, reference %d", y, SolarUtil.GetDaysOfYear(y), ref.DaysInYear(y))
	}
	w.Eval(2)
	// year and month stepping from the leap day and from the 31st: the day is kept where it exists and clamped to the last
	// day of the month where it does not (century years, Julian-only leap years, the 30-day months)
	for _, md := range [][2]int{{2, 29}, {1, 31}, {3, 31}, {8, 31}, {12, 31}} {
		if !ref.Exists(y, md[0], md[1]) {
			continue
		}
		s := calendar.NewSolar(y, md[0], md[1], 13, 14, 15)
		for _, n := range []int{1, -1, 4, -4, 8, -8, 12, -12, 96, -96, 100, -100, 104, 400, -400} {
			ty := y + n
			if ty < minYear || ty > maxYear {
				continue
			}
			want := md[1]
			if l := ref.LastDayOfMonth(ty, md[0]); want > l {
				want = l
			}
			var r *calendar.Solar
			if pv := Call(func() { r = s.NextYear(n) }); pv != nil {
				w.Violatef("nextyear", fmt.Sprintf("%s%+dy", ymd(y, md[0], md[1]), n), "%s.NextYear(%d) panicked: %v", ymd(y, md[0], md[1]), n, pv)
			} else if g := stampOf(r); g.Y != ty || g.M != md[0] || g.D != want || g.H != 13 || g.Mi != 14 || g.S != 15 {
				w.Violatef("nextyear", fmt.Sprintf("%s%+dy", ymd(y, md[0], md[1]), n), "%s.NextYear(%d) = %s, expected %s", ymd(y, md[0], md[1]), n, r.ToYmdHms(), ymd(ty, md[0], want))
			}
			w.Eval(1)
		}
		for _, n := range []int{1, -1, 2, -2, 11, -11, 12, -12, 13, 48, -48} {
			tm := y*12 + md[0] - 1 + n
			ty, tmo := floorDivI(tm, 12), modI(tm, 12)+1
			if ty < minYear || ty > maxYear || (ty == 1582 && tmo == 10) {
				continue
			}
			want := md[1]
			if l := ref.LastDayOfMonth(ty, tmo); want > l {
				want = l
			}
			var r *calendar.Solar
			if pv := Call(func() { r = s.NextMonth(n) }); pv != nil {
				w.Violatef("nextmonth", fmt.Sprintf("%s%+dm", ymd(y, md[0], md[1]), n), "%s.NextMonth(%d) panicked: %v", ymd(y, md[0], md[1]), n, pv)
			} else if g := stampOf(r); g.Y != ty || g.M != tmo || g.D != want {
				w.Violatef("nextmonth", fmt.Sprintf("%s%+dm", ymd(y, md[0], md[1]), n), "%s.NextMonth(%d) = %s, expected %s", ymd(y, md[0], md[1]), n, r.ToYmdHms(), ymd(ty, tmo, want))
			}
			w.Eval(1)
		}
	}
	// nothing in between: each of the ten dropped days is refused by every civil constructor, 4 and 15 October are not
	if y == 1582 {
		for d := 4; d <= 15; d++ {
			for ci, mk := range []func(){func() { calendar.NewSolar(1582, 10, d, 12, 0, 0) }, func() { calendar.NewSolarFromYmd(1582, 10, d) }} {
				pv := Call(mk)
				if gap := d > 4 && d < 15; gap != (pv != nil) {
					w.Violatef("gap", fmt.Sprintf("1582-10-%02d/ctor%d", d, ci), "constructor %d (NewSolar / NewSolarFromYmd) for 1582-10-%02d: panicked=%v, the day exists=%v", ci, d, pv != nil, !gap)
				}
				w.Eval(1)
			}
		}
	}
	var prev *calendar.Solar
	if y > minYear {
		prev = calendar.NewSolarFromYmd(y-1, 12, 31)
	}
	for m := 1; m <= 12; m++ {
		if SolarUtil.GetDaysOfMonth(y, m) != ref.DaysInMonth(y, m) {
			w.Violatef("lengths", fmt.Sprintf("dom/%d-%d", y, m), "GetDaysOfMonth(%d,%d)=%d, reference %d", y, m, SolarUtil.GetDaysOfMonth(y, m), ref.DaysInMonth(y, m))
		}
		w.Eval(1)
		for d := 1; d <= 31; d++ {
			if !ref.Exists(y, m, d) {
				continue
			}
			w.Curf("C04 day %04d-%02d-%02d", y, m, d)
			key := ymd(y, m, d)
			s := calendar.NewSolarFromYmd(y, m, d)
			j := ref.JDN(y, m, d)
			jd := s.GetJulianDay()
			if math.Abs(jd-(float64(j)-0.5)) > 1e-8 {
				w.Violatef("jd", key, "GetJulianDay(%s)=%.9f, reference %.1f", key, jd, float64(j)-0.5)
			}
			back := calendar.NewSolarFromJulianDay(jd)
			if back.ToYmdHms() != key+" 00:00:00" {
				w.Violatef("jd-inverse", key, "NewSolarFromJulianDay(JD(%s)) = %s", key, back.ToYmdHms())
			}
			noon := calendar.NewSolarFromJulianDay(float64(j))
			if noon.ToYmdHms() != key+" 12:00:00" {
				w.Violatef("jd-inverse", key+"/noon", "NewSolarFromJulianDay(%d) = %s, reference %s 12:00:00", j, noon.ToYmdHms(), key)
			}
			wd := ref.Weekday(j)
			if s.GetWeek() != wd || SolarUtil.GetWeek(y, m, d) != wd {
				w.Violatef("weekday", key, "weekday of %s: Solar %d SolarUtil %d reference %d", key, s.GetWeek(), SolarUtil.GetWeek(y, m, d), wd)
			}
			if s.IsLeapYear() != ref.IsLeap(y) {
				w.Violatef("lengths", key+"/isleap", "Solar(%s).IsLeapYear()=%v", key, s.IsLeapYear())
			}
			if SolarUtil.GetDaysInYear(y, m, d) != ref.DayOfYear(y, m, d) {
				w.Violatef("ordinal", key, "GetDaysInYear(%s)=%d, reference %d", key, SolarUtil.GetDaysInYear(y, m, d), ref.DayOfYear(y, m, d))
			}
			if prev != nil {
				nx := prev.NextDay(1)
				if nx.ToYmd() != key {
					w.Violatef("successor", key, "%s.NextDay(1) = %s, reference %s", prev.ToYmd(), nx.ToYmd(), key)
				}
				bk := s.NextDay(-1)
				if bk.ToYmd() != prev.ToYmd() {
					w.Violatef("successor", key+"/back", "%s.NextDay(-1) = %s, reference %s", key, bk.ToYmd(), prev.ToYmd())
				}
				if s.Subtract(prev) != 1 || prev.Subtract(s) != -1 {
					w.Violatef("subtract", key, "%s minus %s = %d, reverse %d (reference 1, -1)", key, prev.ToYmd(), s.Subtract(prev), prev.Subtract(s))
				}
				if !prev.IsBefore(s) || !s.IsAfter(prev) || s.IsBefore(prev) || prev.IsAfter(s) || s.IsBefore(s) || s.IsAfter(s) {
					w.Violatef("order", key, "IsBefore/IsAfter inconsistent between %s and %s", prev.ToYmd(), key)
				}
				w.Eval(5)
			}
			if y == 1582 && m == 10 && d > 4 && d < 15 {
				w.Violatef("gap", key, "a date inside the 1582 gap exists: %s", key)
			}
			prev = s
			w.Eval(6)
			w.Distinct(1)
		}
	}
	if y >= 1482 && y <= 1682 {
		// every date of the two centuries around the switch is stepped by months / years INTO October 1582
		for m := 1; m <= 12; m++ {
			for d := 1; d <= 31; d++ {
				if !ref.Exists(y, m, d) {
					continue
				}
				s := calendar.NewSolar(y, m, d, 7, 8, 9)
				key := ymd(y, m, d)
				nm := (1582*12 + 9) - (y*12 + m - 1)
				var r *calendar.Solar
				if pv := Call(func() { r = s.NextMonth(nm) }); pv != nil {
					w.Violatef("nextmonth", key+"/into-1582-10", "%s.NextMonth(%d) (target October 1582) panicked: %v", key, nm, pv)
				} else if g := stampOf(r); !g.Valid() || g.Y != 1582 || g.M != 10 || (ref.Exists(1582, 10, d) && g.D != d) || (d > 4 && d < 15 && !(g.D == 4 || (g.D >= 15 && g.D <= 24))) {
					w.Violatef("nextmonth", key+"/into-1582-10", "%s.NextMonth(%d) = %s, expected a valid day of October 1582 with the day kept where it exists", key, nm, r.ToYmdHms())
				}
				if m == 10 {
					if pv := Call(func() { r = s.NextYear(1582 - y) }); pv != nil {
						w.Violatef("nextyear", key+"/into-1582", "%s.NextYear(%d) panicked: %v", key, 1582-y, pv)
					} else if g := stampOf(r); !g.Valid() || g.Y != 1582 || g.M != 10 || (ref.Exists(1582, 10, d) && g.D != d) {
						w.Violatef("nextyear", key+"/into-1582", "%s.NextYear(%d) = %s", key, 1582-y, r.ToYmdHms())
					}
				}
				w.Eval(2)
			}
		}
	}
	if y == 1582 {
		w.Sample("days", map[string]interface{}{"day": "1582-10-15", "jdn": ref.JDN(1582, 10, 15), "weekday": ref.Weekday(ref.JDN(1582, 10, 15)), "prev": "1582-10-04"})
	}
}

// c04Second judges one civil second: exact JD inverse and the nearest-second rule for real JDs.
func c04Second(w *W, t ref.Stamp, fractions bool) {
	key := fmtStamp(t)
	w.Cur("C04 second " + key)
	s := solarOf(t)
	jd := s.GetJulianDay()
	if math.Abs(jd-t.JD()) > 1e-8 {
		w.Violatef("jd", key, "GetJulianDay(%s)=%.9f, reference %.9f", key, jd, t.JD())
	}
	back := calendar.NewSolarFromJulianDay(jd)
	if back.ToYmdHms() != key {
		w.Violatef("jd-inverse", key, "NewSolarFromJulianDay(JD(%s)) = %s", key, back.ToYmdHms())
	}
	// the exported helper behind it, called with the fields
	if u := SolarUtil.GetJulianDay(t.Y, t.M, t.D, t.H, t.Mi, t.S); math.Abs(u-t.JD()) > 1e-8 {
		w.Violatef("jd", key+"/util", "SolarUtil.GetJulianDay(%s)=%.9f, reference %.9f", key, u, t.JD())
	}
	w.Eval(3)
	if !fractions {
		return
	}
	// before/after against neighbours at every field granularity (same minute, same hour, same day, ...)
	for _, dlt := range []int64{1, 7, 20, 45, 59, 60, 61, 600, 3540, 3599, 3600, 3601, 43200, 86399, 86400, 86401, 2678400, 31622400} {
		for _, sg := range []int64{1, -1} {
			os2 := t.Secs() + sg*dlt
			o := ref.FromSecs(os2)
			if o.Y < minYear || o.Y > maxYear {
				continue
			}
			so := solarOf(o)
			if so.IsBefore(s) != (os2 < t.Secs()) || so.IsAfter(s) != (os2 > t.Secs()) || s.IsBefore(so) != (t.Secs() < os2) || s.IsAfter(so) != (t.Secs() > os2) ||
				SolarUtil.IsBefore(o.Y, o.M, o.D, o.H, o.Mi, o.S, t.Y, t.M, t.D, t.H, t.Mi, t.S) != (os2 < t.Secs()) || SolarUtil.IsBefore(t.Y, t.M, t.D, t.H, t.Mi, t.S, o.Y, o.M, o.D, o.H, o.Mi, o.S) != (t.Secs() < os2) {
				w.Violatef("order", key+"|"+fmtStamp(o), "IsBefore/IsAfter between %s and %s disagree with the second count (%+d s)", key, fmtStamp(o), sg*dlt)
			}
			w.Eval(1)
		}
	}
	for _, f := range []float64{-0.4, 0.4, 0.6, -0.6, 0.999, 0.3} {
		x := jd + f/86400
		w.Curf("C04 real JD %.10f", x)
		want := t.Secs()
		if f > 0.5 {
			want++
		} else if f < -0.5 {
			want--
		}
		var got *calendar.Solar
		if pv := Call(func() { got = calendar.NewSolarFromJulianDay(x) }); pv != nil {
			w.Violatef("jd-real", fmt.Sprintf("%s%+.3f", key, f), "NewSolarFromJulianDay(%.10f) (=%s %+0.3fs) panicked: %v", x, key, f, pv)
			continue
		}
		g := stampOf(got)
		if !g.Valid() {
			w.Violatef("jd-real", fmt.Sprintf("%s%+.3f", key, f), "NewSolarFromJulianDay(%.10f) gave invalid %s", x, fmtStamp(g))
		} else if g.Secs() != want {
			w.Violatef("jd-real", fmt.Sprintf("%s%+.3f", key, f), "NewSolarFromJulianDay(%.10f) (=%s %+0.3fs) = %s, nearest second is %s", x, key, f, fmtStamp(g), fmtStamp(ref.FromSecs(want)))
		} else if t.S%4 == 0 || want/86400 != t.Secs()/86400 {
			// (always when rounding carried the instant into another civil day)
			sameAsFresh(w, key, fmt.Sprintf("NewSolarFromJulianDay(%+.3fs)", f), got)
		}
		w.Eval(1)
	}
}

func c04Secs(w *W, y, m, d int) {
	w.Class(fmt.Sprintf("secs/%s", ymd(y, m, d)))
	for sec := 0; sec < 86400; sec++ {
		t := ref.Stamp{Y: y, M: m, D: d, H: sec / 3600, Mi: sec % 3600 / 60, S: sec % 60}
		c04Second(w, t, sec%97 == 0 || sec >= 86340 || sec < 60 || sec%3600 >= 3598 || sec%3600 == 0)
		w.Distinct(1)
	}
	w.Sample("secs", map[string]interface{}{"day": ymd(y, m, d), "seconds": 86400, "real_jd_offsets_s": []float64{-0.4, 0.4, 0.6, -0.6, 0.999, 0.3}})
}

func inRangeJDN(j int) bool { return j >= ref.MinJDN && j <= ref.MaxJDN }

func c04StepCase(w *W, i int) {
	rng := w.Rng
	t := randStamp(rng)
	if i%7 == 0 {
		// near the 1582 switch and month/year ends
		switch rng.Intn(3) {
		case 0:
			y, m, d := ref.FromJDN(ref.JDN(1582, 10, 15) - 40 + rng.Intn(80))
			t.Y, t.M, t.D = y, m, d
		case 1:
			t.M, t.D = 12, 31
		case 2:
			t.M = 1 + rng.Intn(12)
			t.D = ref.LastDayOfMonth(t.Y, t.M)
		}
	}
	s := solarOf(t)
	j := ref.JDN(t.Y, t.M, t.D)
	key := fmtStamp(t)
	w.Cur("C04 steps from " + key)
	routes := i%3 == 0
	if routes && i%2 == 0 {
		digest1(s) // a receiver that has already answered every question (whatever it memoised must not travel with a step)
	}
	// day steps
	var n int
	if i%2 == 0 {
		n = c04Steps[rng.Intn(len(c04Steps))]
	} else {
		n = rng.Intn(200001) - 100000
	}
	if inRangeJDN(j + n) {
		r := s.NextDay(n)
		ey, em, ed := ref.FromJDN(j + n)
		want := ref.Stamp{Y: ey, M: em, D: ed, H: t.H, Mi: t.Mi, S: t.S}
		if stampOf(r) != want {
			w.Violatef("nextday", fmt.Sprintf("%s%+d", key, n), "%s.NextDay(%d) = %s, reference %s", key, n, r.ToYmdHms(), fmtStamp(want))
		}
		r2 := s.Next(n, false)
		if stampOf(r2) != want {
			w.Violatef("nextday", fmt.Sprintf("%s%+d/next", key, n), "%s.Next(%d,false) = %s, reference %s", key, n, r2.ToYmdHms(), fmtStamp(want))
		}
		if routes {
			sameAsFresh(w, key, fmt.Sprintf("NextDay(%d)", n), r)
			sameAsFresh(w, key, fmt.Sprintf("Next(%d,false)", n), r2)
		}
		if math.Abs(r.GetJulianDay()-s.GetJulianDay()-float64(n)) > 1e-7 {
			w.Violatef("nextday-jd", fmt.Sprintf("%s%+d", key, n), "JD changed by %.9f after NextDay(%d)", r.GetJulianDay()-s.GetJulianDay(), n)
		}
		if b := r.NextDay(-n); stampOf(b) != t {
			w.Violatef("nextday-undo", fmt.Sprintf("%s%+d", key, n), "%s.NextDay(%d).NextDay(%d) = %s", key, n, -n, b.ToYmdHms())
		}
		if r.Subtract(s) != n || s.Subtract(r) != -n {
			w.Violatef("subtract", fmt.Sprintf("%s%+d", key, n), "Subtract between %s and %s = %d/%d, reference %d", r.ToYmd(), key, r.Subtract(s), s.Subtract(r), n)
		}
		if SolarUtil.GetDaysBetween(t.Y, t.M, t.D, ey, em, ed) != n {
			w.Violatef("subtract", fmt.Sprintf("%s%+d/util", key, n), "GetDaysBetween(%s,%s) = %d, reference %d", key, ymd(ey, em, ed), SolarUtil.GetDaysBetween(t.Y, t.M, t.D, ey, em, ed), n)
		}
		// additivity
		a := rng.Intn(2001) - 1000
		if inRangeJDN(j+a) && inRangeJDN(j+a+n) {
			if x, y2 := s.NextDay(a).NextDay(n), s.NextDay(a+n); stampOf(x) != stampOf(y2) {
				w.Violatef("additive", fmt.Sprintf("%s/%d/%d", key, a, n), "%s.NextDay(%d).NextDay(%d) = %s but NextDay(%d) = %s", key, a, n, x.ToYmdHms(), a+n, y2.ToYmdHms())
			}
			w.Eval(1)
		}
		// comparisons and minute difference against a second, independent stamp
		o := want
		o.H, o.Mi, o.S = rng.Intn(24), rng.Intn(60), rng.Intn(60)
		os := solarOf(o)
		if os.IsBefore(s) != (o.Secs() < t.Secs()) || os.IsAfter(s) != (o.Secs() > t.Secs()) || s.IsBefore(os) != (t.Secs() < o.Secs()) || s.IsAfter(os) != (t.Secs() > o.Secs()) {
			w.Violatef("order", fmt.Sprintf("%s|%s", key, fmtStamp(o)), "IsBefore/IsAfter between %s and %s disagree with the second count", key, fmtStamp(o))
		}
		wantMin := int((o.Secs()-int64(o.S))/60 - (t.Secs()-int64(t.S))/60)
		if n > -400000 && n < 400000 {
			if got := os.SubtractMinute(s); got != wantMin {
				w.Violatef("minutes", fmt.Sprintf("%s|%s", key, fmtStamp(o)), "%s.SubtractMinute(%s) = %d, reference %d", fmtStamp(o), key, got, wantMin)
			}
		}
		w.Eval(8)
		w.Distinct(1)
	}
	// hour steps
	h := rng.Intn(2001) - 1000
	if i%5 == 0 {
		h = []int{0, 1, -1, 23, -23, 24, -24, 25, -25, 48, -48, 8760, -8760, 100000, -100000}[rng.Intn(15)]
	}
	ts := t.Secs() + int64(h)*3600
	if inRangeJDN(int(floorDiv64(ts, 86400))) {
		r := s.NextHour(h)
		want := ref.FromSecs(ts)
		if stampOf(r) != want {
			w.Violatef("nexthour", fmt.Sprintf("%s%+dh", key, h), "%s.NextHour(%d) = %s, reference %s", key, h, r.ToYmdHms(), fmtStamp(want))
		}
		if math.Abs(r.GetJulianDay()-s.GetJulianDay()-float64(h)/24) > 1e-7 {
			w.Violatef("nexthour", fmt.Sprintf("%s%+dh/jd", key, h), "JD changed by %.9f after NextHour(%d)", r.GetJulianDay()-s.GetJulianDay(), h)
		}
		if routes {
			sameAsFresh(w, key, fmt.Sprintf("NextHour(%d)", h), r)
			sameAsFresh(w, key, fmt.Sprintf("NextHour(%d)", h%24), s.NextHour(h%24))
		}
		w.Eval(1)
		w.Distinct(1)
	}
	// month steps
	mo := rng.Intn(241) - 120
	if i%5 == 1 {
		mo = []int{0, 1, -1, 11, -11, 12, -12, 13, -13, 1200, -1200, 5237, -5237}[rng.Intn(13)]
	}
	tm := t.Y*12 + (t.M - 1) + mo
	ty, tmn := floorDivI(tm, 12), modI(tm, 12)+1
	if ty >= minYear && ty <= maxYear {
		var r *calendar.Solar
		if pv := Call(func() { r = s.NextMonth(mo) }); pv != nil {
			w.Violatef("nextmonth", fmt.Sprintf("%s%+dm", key, mo), "%s.NextMonth(%d) panicked: %v", key, mo, pv)
		} else {
			g := stampOf(r)
			ok := g.Valid() && g.Y == ty && g.M == tmn && g.H == t.H && g.Mi == t.Mi && g.S == t.S
			if ok {
				switch {
				case ref.Exists(ty, tmn, t.D):
					ok = g.D == t.D
				case t.D > ref.LastDayOfMonth(ty, tmn):
					ok = g.D == ref.LastDayOfMonth(ty, tmn)
				default: // the kept day falls into the 1582 gap: any existing neighbouring day is acceptable
					ok = g.D == 4 || (g.D >= 15 && g.D <= 24)
				}
			}
			if !ok {
				w.Violatef("nextmonth", fmt.Sprintf("%s%+dm", key, mo), "%s.NextMonth(%d) = %s, expected month %04d-%02d with the day kept or clamped", key, mo, r.ToYmdHms(), ty, tmn)
			} else if routes {
				sameAsFresh(w, key, fmt.Sprintf("NextMonth(%d)", mo), r)
			}
		}
		w.Eval(1)
		w.Distinct(1)
	}
	// year steps
	yr := rng.Intn(401) - 200
	if i%5 == 2 {
		yr = 1582 - t.Y
	}
	if t.Y+yr >= minYear && t.Y+yr <= maxYear {
		ty := t.Y + yr
		var r *calendar.Solar
		if pv := Call(func() { r = s.NextYear(yr) }); pv != nil {
			w.Violatef("nextyear", fmt.Sprintf("%s%+dy", key, yr), "%s.NextYear(%d) panicked: %v", key, yr, pv)
		} else {
			g := stampOf(r)
			ok := g.Valid() && g.Y == ty && g.M == t.M && g.H == t.H && g.Mi == t.Mi && g.S == t.S
			if ok {
				switch {
				case ref.Exists(ty, t.M, t.D):
					ok = g.D == t.D
				case t.D > ref.LastDayOfMonth(ty, t.M):
					ok = g.D == ref.LastDayOfMonth(ty, t.M)
				default:
					ok = g.D == 4 || (g.D >= 15 && g.D <= 24)
				}
			}
			if !ok {
				w.Violatef("nextyear", fmt.Sprintf("%s%+dy", key, yr), "%s.NextYear(%d) = %s, expected year %d with the day kept or clamped", key, yr, r.ToYmdHms(), ty)
			} else if routes {
				sameAsFresh(w, key, fmt.Sprintf("NextYear(%d)", yr), r)
			}
		}
		w.Eval(1)
		w.Distinct(1)
	}
	if i == 0 {
		w.Sample("steps", map[string]interface{}{"start": key, "days": n, "hours": h, "months": mo, "years": yr})
	}
}

// sameAsFresh: a Solar reached by stepping or through a Julian day is the same object, as far as any accessor can
// tell, as one constructed from its fields (whatever the object stepped from had already been asked).
func sameAsFresh(w *W, key, route string, r *calendar.Solar) {
	g := stampOf(r)
	if !g.Valid() || g.Y < minYear || g.Y > maxYear {
		return
	}
	if a, b := digest1(r), digest1(solarOf(g)); a != b {
		w.Violatef("route", key+"/"+route, "the Solar %s reached by %s from %s differs from NewSolar of the same fields: %s", fmtStamp(g), route, key, diffDigests(b, a))
	}
	w.Eval(1)
}

func floorDiv64(a, b int64) int64 {
	q := a / b
	if a%b != 0 && (a < 0) != (b < 0) {
		q--
	}
	return q
}
func floorDivI(a, b int) int { return int(floorDiv64(int64(a), int64(b))) }
func modI(a, b int) int      { return ((a % b) + b) % b }

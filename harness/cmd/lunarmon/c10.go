package main

// C10 - eight-character reverse lookup is sound, complete and sorted.
// The forward conversion (EightChar with SetSect) is the specification.

import (
	"fmt"
	"time"

	"github.com/6tail/lunar-go/calendar"
	"lunarmon/ref"
)

var c10Now int

func init() {
	register(&Prop{
		ID:   "C10",
		Rule: "cases: one civil year each from the base year to the current year (clock read once per worker and treated as an input). Moments: for every Jie instant J of the year J-1s, J, J+1s, the first and last second of J's two-hour slot and of the adjacent slots, the rat hour on both sides of midnight on Jie days, year ends, plus seeded moments; thorough adds every two-hour slot of every day. For each moment and each day-boundary convention the four pillars are fed to the reverse lookup: every returned moment must have those pillars (soundness), must not precede the base year, the list must be strictly increasing, and some returned moment must lie in the original's two-hour slot (completeness; rat slot 23:00-00:59 across midnight for sect 1). distinct_nontrivial counts distinct (moment, sect, base year) lookups.",
		Assumptions: []string{
			"time.Now().Year() (the library's end year) is read once by the harness; a run that straddles New Year's midnight is inconclusive",
			"forward pillars are validated independently by C05",
		},
		Gen: c10Gen, Run: c10Run, Init: func(w *W) { c10Now = time.Now().Year() },
		Exhaustive: func(tier string) bool { return false },
		MinEvals:   map[string]int64{"quick": 20000, "thorough": 1000000},
		Chunks:     128,
	})
}

func c10Gen(g *Gen) []Case {
	now := time.Now().Year()
	var cs []Case
	for y := 1900; y <= now; y++ {
		cs = append(cs, Case{K: "jie", A: []int{y, 1900}})
		if !g.Quick {
			cs = append(cs, Case{K: "slots", A: []int{y, 1900}})
		}
	}
	for _, b := range []int{1, 1000, 1200, 1500, 1800, 1950, 2000} {
		ys := []int{b, b + 1, b + 59, b + 60, b + 61, now}
		if !g.Quick {
			for i := 0; i < 20; i++ {
				ys = append(ys, b+g.Rng.Intn(now-b+1))
			}
		}
		for _, y := range ys {
			if y >= b && y <= now {
				cs = append(cs, Case{K: "jie", A: []int{y, b}})
			}
		}
	}
	// the twelve years up to now in which a Jie falls inside the rat slot that straddles the civil year end (31 December
	// 23:xx or 1 January 00:xx; found by scanning the unchanged library's tables), under two early base years
	for _, y := range []int{829, 832, 836, 862, 866, 869, 899, 902, 906, 932, 936, 939} {
		for _, b := range []int{1, 800} {
			if !g.Quick || (y+b)%2 == 1 {
				cs = append(cs, Case{K: "jie", A: []int{y, b}})
			}
		}
	}
	// for every non-default base year B: the Lichun year one cycle after B-1 has the same year pillar as B-1; its winter
	// months are walked day by day so that any candidate of B-1 that slips past the base-year filter is seen
	for _, b := range []int{1000, 1200, 1500, 1800, 1950} {
		cs = append(cs, Case{K: "basewalk", A: []int{b}})
	}
	n := 30
	if !g.Quick {
		n = 300
	}
	cs = append(cs, batchCases("rand", n, 100)...)
	return cs
}

// slot identity under a day-boundary convention
func c10Slot(st ref.Stamp, sect int) int64 {
	if sect == 1 {
		return (st.Secs() + 3600) / 7200
	}
	day := int64(ref.JDN(st.Y, st.M, st.D))
	if st.H == 23 {
		return day*13 + 12
	}
	return day*13 + int64((st.H+1)/2)
}

func c10Pillars(st ref.Stamp, sect int) [4]string {
	ec := solarOf(st).GetLunar().GetEightChar()
	if st.H == 23 || st.H == 0 {
		// around midnight the chart is first read the other way (a caller comparing the two conventions on one chart
		// object), then switched: the pillars fed back are the ones reported after the switch
		ec.SetSect(3 - sect)
		_ = ec.String() + ec.GetDay() + ec.GetTime() + ec.GetDayGan() + ec.GetDayZhi()
	}
	ec.SetSect(sect)
	return [4]string{ec.GetYear(), ec.GetMonth(), ec.GetDay(), ec.GetTime()}
}

func c10Lookup(w *W, st ref.Stamp, base int, class string) {
	if st.Y > c10Now || st.Y < base {
		return
	}
	for sect := 1; sect <= 2; sect++ {
		key := fmt.Sprintf("%s/sect%d/base%d", fmtStamp(st), sect, base)
		w.Cur("C10 lookup " + key)
		p := c10Pillars(st, sect)
		// now and then the same pillars are asked under other base years straight before (the answer for this base year
		// must not remember them): 60 and 120 years earlier, and a later one that excludes the moment itself
		if (st.D+st.Mi+st.S)%7 == 0 {
			for _, b := range []int{base - 60, base - 120, st.Y + 1} {
				if b >= 1 {
					lb := calendar.ListSolarFromBaZiBySectAndBaseYear(p[0], p[1], p[2], p[3], sect, b)
					for e := lb.Front(); e != nil; e = e.Next() {
						if r := stampOf(e.Value.(*calendar.Solar)); r.Y < b {
							w.Violatef("base-year", fmt.Sprintf("%s/base%d/%s", key, b, fmtStamp(r)), "lookup with base year %d returned %s", b, fmtStamp(r))
						}
					}
					w.Eval(1)
				}
			}
			w.Count("lookups-preceded-by-other-base-years", 1)
		}
		l := calendar.ListSolarFromBaZiBySectAndBaseYear(p[0], p[1], p[2], p[3], sect, base)
		var got []ref.Stamp
		for e := l.Front(); e != nil; e = e.Next() {
			got = append(got, stampOf(e.Value.(*calendar.Solar)))
		}
		found := false
		for i, r := range got {
			if q := c10Pillars(r, sect); q != p {
				w.Violatef("sound", key+"/"+fmtStamp(r), "lookup of %v (sect %d, base %d; from %s) returned %s whose pillars are %v", p, sect, base, fmtStamp(st), fmtStamp(r), q)
			}
			if r.Y < base {
				w.Violatef("base-year", key+"/"+fmtStamp(r), "lookup with base year %d returned %s", base, fmtStamp(r))
			}
			if i > 0 && r.Secs() <= got[i-1].Secs() {
				w.Violatef("sorted", key, "lookup of %v returned %s after %s", p, fmtStamp(r), fmtStamp(got[i-1]))
			}
			if c10Slot(r, sect) == c10Slot(st, sect) {
				found = true
			}
		}
		if !found {
			var rs []string
			for _, r := range got {
				rs = append(rs, fmtStamp(r))
			}
			w.Violatef("complete", key, "the pillars %v of %s (sect %d, base %d) were fed back and no returned moment lies in the same two-hour slot; returned %v", p, fmtStamp(st), sect, base, rs)
		}
		if sect == 2 && base == 1900 {
			// the default entry points document sect 2 / base 1900
			d1 := listStrings(calendar.ListSolarFromBaZi(p[0], p[1], p[2], p[3]))
			d2 := listStrings(calendar.ListSolarFromBaZiBySect(p[0], p[1], p[2], p[3], 2))
			if fmt.Sprint(d1) != fmt.Sprint(listStrings(l)) || fmt.Sprint(d2) != fmt.Sprint(d1) {
				w.Violatef("defaults", key, "ListSolarFromBaZi / BySect(2) / BySectAndBaseYear(2,1900) disagree for %v", p)
			}
		}
		w.Eval(2 + len(got))
		w.Distinct(1)
		w.Count(class, 1)
	}
}

// c10FirstJie: the earliest Jie instant (seconds) that falls inside civil year y.
func c10FirstJie(y int) int64 {
	tbl := calendar.NewSolarFromYmd(y, 6, 15).GetLunar().GetJieQiTable()
	for p := 0; p <= 30; p += 2 {
		if e := tbl[termKeys31[p]]; e != nil && e.GetYear() == y {
			return stampOf(e).Secs()
		}
	}
	return ref.Stamp{Y: y, M: 12, D: 31, H: 23, Mi: 59, S: 59}.Secs()
}

func c10Run(w *W, c Case) {
	switch c.K {
	case "jie":
		y, base := c.A[0], c.A[1]
		w.Class(fmt.Sprintf("jie/base%d", base))
		historyTouch(w, y)
		tbl := calendar.NewSolarFromYmd(y, 6, 15).GetLunar().GetJieQiTable()
		lo := ref.Stamp{Y: y, M: 1, D: 1}.Secs()
		if y == base {
			lo = c10FirstJie(y) // the domain starts at the first Jie instant inside the base year
		}
		hi := ref.Stamp{Y: y, M: 12, D: 31, H: 23, Mi: 59, S: 59}.Secs()
		add := func(t int64, class string) {
			if t >= lo && t <= hi {
				c10Lookup(w, ref.FromSecs(t), base, class)
			}
		}
		for p := 2; p <= 30; p += 2 { // (entries 26..30 are next year's first Jie: in the Julian centuries 小寒 still falls in this December)
			e := tbl[termKeys31[p]]
			if e == nil {
				continue
			}
			j := stampOf(e).Secs()
			s0 := (j+3600)/7200*7200 - 3600 // first second of J's slot (sect-1 geometry)
			for _, t := range []int64{j - 1, j, j + 1, s0, s0 + 3599, s0 + 3600, s0 + 7199, s0 - 1, s0 + 7200, s0 - 7200} {
				add(t, "jie-slot-moments")
			}
			d0 := j / 86400 * 86400
			for _, t := range []int64{d0 - 3600, d0 - 1, d0, d0 + 3599, d0 + 82800, d0 + 86399, d0 + 86400} {
				add(t, "rat-hour-moments")
			}
		}
		add(lo, "year-edge-moments")
		add(hi, "year-edge-moments")
		add(hi-3599, "year-edge-moments")
		if y == 2024 {
			w.Sample("jie", map[string]interface{}{"year": y, "base": base, "qingming": fmtStamp(stampOf(tbl["清明"]))})
		}
	case "slots":
		y, base := c.A[0], c.A[1]
		w.Class("all-slots")
		for j := ref.JDN(y, 1, 1); j <= ref.JDN(y, 12, 31); j++ {
			for k := 0; k < 13; k++ {
				h := 2*k - 1
				if k == 0 {
					h = 0
				}
				t := int64(j)*86400 + int64(h)*3600 + int64(w.Rng.Intn(3600))
				if y == base && t < c10FirstJie(y) {
					continue
				}
				c10Lookup(w, ref.FromSecs(t), base, "slot-walk-moments")
			}
		}
	case "basewalk":
		base := c.A[0]
		w.Class(fmt.Sprintf("basewalk/base%d", base))
		y := base - 1 + 60
		for y+60 <= c10Now && w.Rng.Intn(3) == 0 {
			y += 60
		}
		lo := ref.JDN(y, 12, 1)
		for j := lo; j < lo+75; j++ {
			cy, cm, cd := ref.FromJDN(j)
			if cy > c10Now {
				break
			}
			c10Lookup(w, ref.Stamp{Y: cy, M: cm, D: cd, H: 12, Mi: j % 60}, base, "base-year-walk-moments")
			if j%6 == 0 {
				c10Lookup(w, ref.Stamp{Y: cy, M: cm, D: cd, H: 23, Mi: 30}, base, "base-year-walk-moments")
			}
		}
	case "rand":
		w.Class("seeded")
		for i := 0; i < c.A[1]; i++ {
			lo := ref.Stamp{Y: 1900, M: 1, D: 7}.Secs()
			hi := ref.Stamp{Y: c10Now, M: 12, D: 31, H: 23, Mi: 59, S: 59}.Secs()
			c10Lookup(w, ref.FromSecs(lo+w.Rng.Int63n(hi-lo+1)), 1900, "seeded-moments")
		}
	}
}
